//! C09 — lengthen / shorten / split / concat / remove against the corresponding Vec operations.

use super::*;
use core::ops::{Add, Sub};

fn lengthen<E: Elem, N>() -> Result<CaseInfo, String>
where
    N: ArrayLength + Add<B1>,
    Add1<N>: ArrayLength + Sub<B1, Output = N>,
    Sub1<Add1<N>>: ArrayLength,
{
    let n = N::USIZE;
    // append == push
    let a = mk::<E, N>();
    let mut model = ids_of(&a);
    let x = E::make();
    model.push(x.ident());
    let b: GA<E, Add1<N>> = a.append(x);
    if ids_of(&b) != model || b.len() != n + 1 {
        return Err(format!("append gives {:?}, Vec::push gives {model:?}", ids_of(&b)));
    }
    exact::<E>(&model).map_err(|e| format!("after append: {e}"))?;
    // pop_back == pop (the inverse)
    let (init, last) = b.pop_back();
    let want_last = model.pop().unwrap();
    if ids_of(&init) != model || last.ident() != want_last {
        return Err(format!("pop_back gives ({:?}, {}), Vec::pop gives ({model:?}, {want_last})", ids_of(&init), last.ident()));
    }
    let mut all = model.clone();
    all.push(want_last);
    exact::<E>(&all).map_err(|e| format!("after pop_back: {e}"))?;
    drop(last);
    // prepend == insert(0)
    let y = E::make();
    model.insert(0, y.ident());
    let c: GA<E, Add1<N>> = init.prepend(y);
    if ids_of(&c) != model {
        return Err(format!("prepend gives {:?}, Vec::insert(0, x) gives {model:?}", ids_of(&c)));
    }
    exact::<E>(&model).map_err(|e| format!("after prepend: {e}"))?;
    // pop_front == remove(0)
    let (head, tail) = c.pop_front();
    let want_head = model.remove(0);
    if head.ident() != want_head || ids_of(&tail) != model {
        return Err(format!("pop_front gives ({}, {:?}), Vec::remove(0) gives ({want_head}, {model:?})", head.ident(), ids_of(&tail)));
    }
    let mut all = model.clone();
    all.push(want_head);
    exact::<E>(&all).map_err(|e| format!("after pop_front: {e}"))?;
    drop(head);
    drop(tail);
    ledger::check_exact(&[], 0)?;
    Ok(CaseInfo::new(true, "lengthen-shorten"))
}

/// form 0 owned, 1 shared, 2 mutable
fn split<E: Elem, N, K>(form: u8) -> Result<CaseInfo, String>
where
    N: ArrayLength + Sub<K>,
    K: ArrayLength,
    Diff<N, K>: ArrayLength,
{
    let (n, k) = (N::USIZE, K::USIZE);
    let sz = core::mem::size_of::<E>();
    let mut a = mk::<E, N>();
    let model = ids_of(&a);
    let (mh, mt) = model.split_at(k);
    let base = a.as_ptr() as usize;
    match form {
        0 => {
            let (h, t): (GA<E, K>, GA<E, Diff<N, K>>) = Split::<E, K>::split(a);
            if ids_of(&h) != mh || ids_of(&t) != mt {
                return Err(format!("split at {k} gives ({:?}, {:?}), split_at gives ({mh:?}, {mt:?})", ids_of(&h), ids_of(&t)));
            }
            exact::<E>(&model).map_err(|e| format!("after owned split: {e}"))?;
            drop(h);
            exact::<E>(mt).map_err(|e| format!("after dropping the first half: {e}"))?;
            drop(t);
        }
        1 => {
            let (h, t): (&GA<E, K>, &GA<E, Diff<N, K>>) = Split::<E, K>::split(&a);
            let got = ((h.as_ptr() as usize, h.len()), (t.as_ptr() as usize, t.len()));
            let want = ((base, k), (base + k * sz, n - k));
            if got != want {
                return Err(format!("&split halves are (+{}, {}) and (+{}, {}), expected (+0, {k}) and (+{}, {})", got.0 .0.wrapping_sub(base), got.0 .1, got.1 .0.wrapping_sub(base), got.1 .1, k * sz, n - k));
            }
            if ids_of(h) != mh || ids_of(t) != mt {
                return Err("&split halves list the wrong elements".into());
            }
            drop(a);
        }
        _ => {
            {
                let (h, t): (&mut GA<E, K>, &mut GA<E, Diff<N, K>>) = Split::<E, K>::split(&mut a);
                let got = ((h.as_ptr() as usize, h.len()), (t.as_ptr() as usize, t.len()));
                let want = ((base, k), (base + k * sz, n - k));
                if got != want {
                    return Err(format!("&mut split halves are {got:?}, expected {want:?} (base {base:#x})"));
                }
            }
            // a write through either half is visible in the original at the right index
            let mut model = model.clone();
            for idx in 0..n {
                let fresh = E::make();
                model[idx] = fresh.ident();
                {
                    let (h, t): (&mut GA<E, K>, &mut GA<E, Diff<N, K>>) = Split::<E, K>::split(&mut a);
                    if idx < k {
                        h[idx] = fresh;
                    } else {
                        t[idx - k] = fresh;
                    }
                }
                if ids_of(&a) != model {
                    return Err(format!("after writing index {idx} through the &mut halves the original lists {:?}, expected {model:?}", ids_of(&a)));
                }
                if n > 12 && idx == 2 {
                    break;
                }
            }
            drop(a);
        }
    }
    ledger::check_exact(&[], 0)?;
    Ok(CaseInfo::new(n > 0, format!("split-{}", ["owned", "ref", "mut"][form as usize])))
}

fn concat<E: Elem, N, M>() -> Result<CaseInfo, String>
where
    N: ArrayLength + Add<M>,
    M: ArrayLength,
    Sum<N, M>: ArrayLength,
{
    let a = mk::<E, N>();
    let b = mk::<E, M>();
    let mut model = ids_of(&a);
    model.extend(ids_of(&b));
    let c: GA<E, Sum<N, M>> = Concat::<E, M>::concat(a, b);
    if ids_of(&c) != model || c.len() != N::USIZE + M::USIZE {
        return Err(format!("concat gives {:?}, Vec::extend gives {model:?}", ids_of(&c)));
    }
    exact::<E>(&model).map_err(|e| format!("after concat: {e}"))?;
    drop(c);
    ledger::check_exact(&[], 0)?;
    Ok(CaseInfo::new(N::USIZE + M::USIZE > 0, "concat"))
}

fn remove<E: Elem, N>(swap: bool, unchecked: bool, idx: usize) -> Result<CaseInfo, String>
where
    N: ArrayLength + Sub<B1>,
    Sub1<N>: ArrayLength,
{
    let n = N::USIZE;
    let a = mk::<E, N>();
    let mut model = ids_of(&a);
    let r = catch(move || match (swap, unchecked) {
        (true, false) => a.swap_remove(idx),
        (false, false) => a.remove(idx),
        // the unsafe forms with a valid index (their documented domain) must behave like the checked ones
        (true, true) => unsafe { a.swap_remove_unchecked(idx) },
        (false, true) => unsafe { a.remove_unchecked(idx) },
    });
    if idx >= n {
        return match r {
            // the property says "panic"; the wording of the message is not part of it
            Err(PanicKind::Other(_)) => {
                ledger::check_exact(&[], 0).map_err(|e| format!("after the out-of-range panic: {e}"))?;
                Ok(CaseInfo::new(true, "out-of-range-panic"))
            }
            Err(e) => Err(format!("index {idx} >= N = {n}: expected the documented panic, got {e:?}")),
            Ok((x, rest)) => {
                let d = format!("index {idx} >= N = {n} did not panic; returned ({}, {:?})", x.ident(), ids_of(&rest));
                core::mem::forget((x, rest));
                Err(d)
            }
        };
    }
    let (x, rest) = r.map_err(|e| format!("unexpected panic {e:?}"))?;
    let want = if swap { model.swap_remove(idx) } else { model.remove(idx) };
    if x.ident() != want || ids_of(&rest) != model {
        return Err(format!(
            "{}({idx}) gives ({}, {:?}), Vec gives ({want}, {model:?})",
            if swap { "swap_remove" } else { "remove" },
            x.ident(),
            ids_of(&rest)
        ));
    }
    let mut all = model.clone();
    all.push(want);
    exact::<E>(&all).map_err(|e| format!("after removal: {e}"))?;
    drop(x);
    drop(rest);
    ledger::check_exact(&[], 0)?;
    Ok(CaseInfo::new(true, if swap { "swap_remove" } else { "remove" }))
}

macro_rules! elems {
    ($m:ident, $($a:tt)*) => {
        $m!(TrZ, $($a)*); $m!((), $($a)*); $m!(u8, $($a)*); $m!(Tr<1>, $($a)*); $m!(u64, $($a)*); $m!(Tr<5>, $($a)*); $m!([u8; 24], $($a)*); $m!(Tr<0>, $($a)*); $m!(u16, $($a)*); $m!(Tr<31>, $($a)*); $m!(B3, $($a)*); $m!(A64, $($a)*); $m!(TrA, $($a)*);
    };
}

// NOTE: the per-(E, N) case lists are generic functions, and the macros below expand to plain calls:
// expanding thousands of closures inline into one `run` function made MIR borrow checking take minutes.
fn lengthen_cases<E: Elem, N>(ctx: &mut Ctx)
where
    N: ArrayLength + Add<B1>,
    Add1<N>: ArrayLength + Sub<B1, Output = N>,
    Sub1<Add1<N>>: ArrayLength,
{
    if N::USIZE <= crate::maxn() {
        ctx.case(&format!("C09;lengthen-shorten;N={};E={}", N::USIZE, E::NAME), || lengthen::<E, N>());
    }
}
fn split_cases<E: Elem, N, K>(ctx: &mut Ctx)
where
    N: ArrayLength + Sub<K>,
    K: ArrayLength,
    Diff<N, K>: ArrayLength,
{
    if N::USIZE > crate::maxn() {
        return;
    }
    for form in 0u8..3 {
        ctx.case(&format!("C09;split-{};N={};K={};E={}", ["owned", "ref", "mut"][form as usize], N::USIZE, K::USIZE, E::NAME), || split::<E, N, K>(form));
    }
}
fn concat_cases<E: Elem, N, M>(ctx: &mut Ctx)
where
    N: ArrayLength + Add<M>,
    M: ArrayLength,
    Sum<N, M>: ArrayLength,
{
    if N::USIZE + M::USIZE <= crate::maxn() {
        ctx.case(&format!("C09;concat;N={};M={};E={}", N::USIZE, M::USIZE, E::NAME), || concat::<E, N, M>());
    }
}
fn remove_cases<E: Elem, N>(ctx: &mut Ctx)
where
    N: ArrayLength + Sub<B1>,
    Sub1<N>: ArrayLength,
{
    let n = N::USIZE;
    if n > crate::maxn() {
        return;
    }
    // every index for N <= 100; above that both ends, the eighths/quarters/thirds/half with their neighbours
    let idxs: Vec<usize> = if n <= 100 {
        let mut v: Vec<usize> = (0..=n + 1).collect();
        v.push(usize::MAX);
        v
    } else {
        let mut v = vec![0, 1, 2, 3, 4, 7, 8, 9, n / 8, n / 4 - 1, n / 4, n / 4 + 1, n / 3, n / 2 - 1, n / 2, n / 2 + 1, 2 * n / 3, 3 * n / 4 - 1, 3 * n / 4, 3 * n / 4 + 1, n - 4, n - 3, n - 2, n - 1, n, n + 1, usize::MAX];
        v.sort();
        v.dedup();
        v
    };
    for swap in [false, true] {
        for &i in &idxs {
            let nm = if swap { "swap_remove" } else { "remove" };
            ctx.case(&format!("C09;{nm};N={n};i={i};E={}", E::NAME), || remove::<E, N>(swap, false, i));
            if i < n {
                ctx.case(&format!("C09;{nm}_unchecked;N={n};i={i};E={}", E::NAME), || remove::<E, N>(swap, true, i));
            }
        }
    }
}

macro_rules! m_lengthen {
    ($E:ty, $ctx:expr, $n:ty) => {
        lengthen_cases::<$E, $n>($ctx);
    };
}
macro_rules! m_split {
    ($E:ty, $ctx:expr, $n:ty, $k:ty) => {
        split_cases::<$E, $n, $k>($ctx);
    };
}
macro_rules! m_concat {
    ($E:ty, $ctx:expr, $n:ty, $m:ty) => {
        concat_cases::<$E, $n, $m>($ctx);
    };
}
macro_rules! m_remove {
    ($E:ty, $ctx:expr, $n:ty) => {
        remove_cases::<$E, $n>($ctx);
    };
}

macro_rules! split_pair { ($ctx:expr, $n:ty, $k:ty) => { elems!(m_split, $ctx, $n, $k); }; }
macro_rules! concat_pair { ($ctx:expr, $n:ty, $m:ty) => { elems!(m_concat, $ctx, $n, $m); }; }

/// all pairs (N, K) with K <= N from an ascending list
macro_rules! tri {
    ($mac:ident, $ctx:expr, [$($done:ty),*], []) => {};
    ($mac:ident, $ctx:expr, [$($done:ty),*], [$head:ty $(, $rest:ty)*]) => {
        $( $mac!($ctx, $head, $done); )*
        $mac!($ctx, $head, $head);
        tri!($mac, $ctx, [$($done,)* $head], [$($rest),*]);
    };
}
/// all pairs (N, M) with N + M <= 8
macro_rules! sums {
    ($ctx:expr) => {
        sums!(@row $ctx, U0, [U0, U1, U2, U3, U4, U5, U6, U7, U8]);
        sums!(@row $ctx, U1, [U0, U1, U2, U3, U4, U5, U6, U7]);
        sums!(@row $ctx, U2, [U0, U1, U2, U3, U4, U5, U6]);
        sums!(@row $ctx, U3, [U0, U1, U2, U3, U4, U5]);
        sums!(@row $ctx, U4, [U0, U1, U2, U3, U4]);
        sums!(@row $ctx, U5, [U0, U1, U2, U3]);
        sums!(@row $ctx, U6, [U0, U1, U2]);
        sums!(@row $ctx, U7, [U0, U1]);
        sums!(@row $ctx, U8, [U0]);
    };
    (@row $ctx:expr, $n:ty, [$($m:ty),*]) => { $( concat_pair!($ctx, $n, $m); )* };
}
macro_rules! each {
    ($mac:ident, $ctx:expr, [$($n:ty),*]) => { $( elems!($mac, $ctx, $n); )* };
}

pub fn run(ctx: &mut Ctx) {
    // complete for N in 0..=8
    each!(m_lengthen, ctx, [U0, U1, U2, U3, U4, U5, U6, U7, U8]);
    tri!(split_pair, ctx, [], [U0, U1, U2, U3, U4, U5, U6, U7, U8]);
    sums!(ctx);
    each!(m_remove, ctx, [U1, U2, U3, U4, U5, U6, U7, U8]);
    // boundary and large lengths, position lattice {0, 1, N/2, N-1, N}
    each!(m_lengthen, ctx, [U15, U16, U17, U31, U32, U33, U63, U64, U100, U255, U256, U1023, U1024]);
    each!(m_remove, ctx, [U9, U10, U11, U12, U13, U15, U16, U17, U24, U32, U33, U64, U100, U256, U1024]);
    macro_rules! edge_split {
        ($n:ty, $half:ty, $pred:ty) => {
            split_pair!(ctx, $n, U0);
            split_pair!(ctx, $n, U1);
            split_pair!(ctx, $n, $half);
            split_pair!(ctx, $n, $pred);
            split_pair!(ctx, $n, $n);
        };
    }
    macro_rules! more_split {
        ($n:ty, [$($k:ty),*]) => { $( split_pair!(ctx, $n, $k); )* };
    }
    more_split!(U12, [U0, U1, U2, U3, U4, U5, U6, U7, U8, U9, U10, U11, U12]);
    more_split!(U16, [U2, U3, U4, U5, U7, U9, U12, U14]);
    more_split!(U17, [U2, U3, U4, U5, U7, U9, U12, U15]);
    more_split!(U33, [U2, U3, U7, U8, U9, U11, U17, U24, U31]);
    more_split!(U100, [U2, U3, U24, U25, U26, U33, U49, U51, U75, U98]);
    more_split!(U1024, [U2, U3, U255, U256, U257, U511, U513, U768, U1022]);
    edge_split!(U16, U8, U15);
    edge_split!(U17, U8, U16);
    edge_split!(U33, U16, U32);
    edge_split!(U100, U50, U99);
    edge_split!(U1024, U512, U1023);
    concat_pair!(ctx, U9, U3);
    concat_pair!(ctx, U3, U9);
    concat_pair!(ctx, U12, U4);
    concat_pair!(ctx, U5, U12);
    concat_pair!(ctx, U16, U16);
    concat_pair!(ctx, U24, U9);
    concat_pair!(ctx, U2, U31);
    concat_pair!(ctx, U16, U17);
    concat_pair!(ctx, U1, U1023);
    concat_pair!(ctx, U1023, U1);
    concat_pair!(ctx, U100, U33);
    concat_pair!(ctx, U0, U1024);
    concat_pair!(ctx, U512, U512);
}
