//! Shared instruments for the bounded-exhaustive exploration engines:
//! drop/observation ledger with identity-carrying element types, single-fault plans,
//! case bookkeeping (descriptors, sharding, trace mode, double replay) and JSON reporting.

pub mod ledger;
pub mod elems;
pub mod ctx;

pub use ctx::{CaseInfo, Ctx, Tier};
pub use elems::{Elem, Nb, Nd, Tr, TrA, TrB, TrZ, Zn, A64, B3};
pub use ledger::Injected;

pub use serde_json;
pub use serde_json::json;

/// Run `f`, catching a panic. `Ok(v)` if it returned, `Err(Some(tag))` if it panicked with an
/// [`Injected`] payload, `Err(None)` with the message recorded in `msg` for any other panic.
pub fn catch<R>(f: impl FnOnce() -> R) -> Result<R, PanicKind> {
    match std::panic::catch_unwind(std::panic::AssertUnwindSafe(f)) {
        Ok(v) => Ok(v),
        Err(p) => {
            if let Some(i) = p.downcast_ref::<Injected>() {
                Err(PanicKind::Injected(i.0))
            } else if let Some(s) = p.downcast_ref::<String>() {
                Err(PanicKind::Other(s.clone()))
            } else if let Some(s) = p.downcast_ref::<&'static str>() {
                Err(PanicKind::Other((*s).to_string()))
            } else {
                Err(PanicKind::Other("<non-string panic payload>".to_string()))
            }
        }
    }
}

#[derive(Debug, Clone, PartialEq, Eq)]
pub enum PanicKind {
    Injected(&'static str),
    Other(String),
}

/// Install a panic hook that is silent for injected faults and for panics the engines expect
/// (they are caught and classified), but can be made verbose with VERIF_VERBOSE_PANICS=1.
pub fn install_hook() {
    let verbose = std::env::var("VERIF_VERBOSE_PANICS").is_ok();
    std::panic::set_hook(Box::new(move |info| {
        if verbose {
            eprintln!("[panic] {info}");
        }
    }));
}

pub static MAXN: std::sync::atomic::AtomicUsize = std::sync::atomic::AtomicUsize::new(usize::MAX);
/// largest length the engines' length loops instantiate in this run (`--maxn`, default: no limit)
pub fn maxn() -> usize {
    MAXN.load(std::sync::atomic::Ordering::Relaxed)
}
