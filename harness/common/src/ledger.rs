//! Thread-local ledger of element life-cycle events.
//!
//! `Drop` of a tracked element only bumps a counter held *outside* the element, so a double drop
//! is recorded deterministically instead of corrupting memory.  Every accessor of a tracked
//! element first consults the ledger and records an *observation after drop*.

use std::cell::RefCell;

/// Payload of every injected panic.
#[derive(Debug, Clone, Copy, PartialEq, Eq)]
pub struct Injected(pub &'static str);

#[derive(Default, Clone, Debug)]
pub struct Ledger {
    /// per id: number of times the destructor ran
    pub drops: Vec<u32>,
    /// per id: number of observations (id(), clone, eq, debug, hash) made after a drop
    pub after_drop: Vec<u32>,
    /// observations whose id was not a created id or whose padding pattern was damaged
    pub garbage: u32,
    /// zero-sized tracked elements: totals only
    pub z_created: u64,
    pub z_dropped: u64,
    /// high-water mark of (z_dropped - z_created) (must stay <= 0)
    pub z_over: i64,
    /// fault plans
    pub drop_bomb: Option<u32>,
    pub zdrop_bomb: Option<u64>,
    pub clone_bomb: Option<u64>,
    pub call_bomb: Option<u64>,
    /// fault bookkeeping
    pub fired: u32,
    pub clone_calls: u64,
    pub calls: u64,
    /// order in which ids were dropped (for order-sensitive oracles / debugging)
    pub drop_log: Vec<u32>,
    /// per id: the id it was cloned from (u32::MAX if made fresh)
    pub parent: Vec<u32>,
}

thread_local! {
    static L: RefCell<Ledger> = RefCell::new(Ledger::default());
}

pub fn with<R>(f: impl FnOnce(&mut Ledger) -> R) -> R {
    L.with(|l| f(&mut l.borrow_mut()))
}

/// Forget everything (start of a case).
pub fn reset() {
    // keep the vectors' capacity: engines that record allocator traffic must not see the ledger grow
    with(|l| {
        let mut drops = core::mem::take(&mut l.drops);
        let mut after = core::mem::take(&mut l.after_drop);
        let mut log = core::mem::take(&mut l.drop_log);
        let mut parent = core::mem::take(&mut l.parent);
        drops.clear();
        after.clear();
        log.clear();
        parent.clear();
        *l = Ledger { drops, after_drop: after, drop_log: log, parent, ..Ledger::default() };
    });
}

/// pre-size the ledger so that creating up to `n` elements allocates nothing
pub fn reserve(n: usize) {
    with(|l| {
        l.drops.reserve(n);
        l.after_drop.reserve(n);
        l.drop_log.reserve(2 * n);
        l.parent.reserve(n);
    });
}

pub fn snapshot() -> Ledger {
    with(|l| l.clone())
}

pub fn new_id() -> u32 {
    new_id_from(u32::MAX)
}

pub fn new_id_from(parent: u32) -> u32 {
    with(|l| {
        l.drops.push(0);
        l.after_drop.push(0);
        l.parent.push(parent);
        (l.drops.len() - 1) as u32
    })
}

pub fn parent(id: u32) -> u32 {
    with(|l| l.parent.get(id as usize).copied().unwrap_or(u32::MAX))
}

pub fn created() -> u32 {
    with(|l| l.drops.len() as u32)
}

pub fn fired() -> u32 {
    with(|l| l.fired)
}

pub fn set_drop_bomb(id: Option<u32>) {
    with(|l| l.drop_bomb = id)
}
pub fn set_zdrop_bomb(k: Option<u64>) {
    with(|l| l.zdrop_bomb = k)
}
pub fn set_clone_bomb(k: Option<u64>) {
    with(|l| l.clone_bomb = k)
}
/// generic "k-th call of instrumented caller code panics" plan, consumed by [`tick`].
pub fn set_call_bomb(k: Option<u64>) {
    with(|l| l.call_bomb = k)
}
pub fn calls() -> u64 {
    with(|l| l.calls)
}
pub fn clone_calls() -> u64 {
    with(|l| l.clone_calls)
}

/// Called by instrumented caller code (closures, scripted iterators) at the start of each call.
/// Panics with `Injected(tag)` if this is the planned call.
pub fn tick(tag: &'static str) {
    let fire = with(|l| {
        let k = l.calls;
        l.calls += 1;
        if l.call_bomb == Some(k) {
            l.fired += 1;
            true
        } else {
            false
        }
    });
    if fire {
        std::panic::panic_any(Injected(tag));
    }
}

/// record the drop of tracked id; returns true if the destructor must panic now
pub(crate) fn note_drop(id: u32) -> bool {
    with(|l| {
        if (id as usize) < l.drops.len() {
            l.drops[id as usize] += 1;
            l.drop_log.push(id);
        } else {
            l.garbage += 1;
        }
        if l.drop_bomb == Some(id) && !std::thread::panicking() {
            l.drop_bomb = None; // panics once
            l.fired += 1;
            true
        } else {
            false
        }
    })
}

pub(crate) fn note_zdrop() -> bool {
    with(|l| {
        let k = l.z_dropped;
        l.z_dropped += 1;
        let over = l.z_dropped as i64 - l.z_created as i64;
        if over > l.z_over {
            l.z_over = over;
        }
        if l.zdrop_bomb == Some(k) && !std::thread::panicking() {
            l.zdrop_bomb = None;
            l.fired += 1;
            true
        } else {
            false
        }
    })
}

pub(crate) fn note_zcreate() {
    with(|l| l.z_created += 1)
}

/// record an observation of a tracked element
pub(crate) fn note_observe(id: u32, pad_ok: bool) {
    with(|l| {
        if (id as usize) >= l.drops.len() || !pad_ok {
            l.garbage += 1;
        } else if l.drops[id as usize] > 0 {
            l.after_drop[id as usize] += 1;
        }
    })
}

pub(crate) fn note_clone() -> bool {
    with(|l| {
        let k = l.clone_calls;
        l.clone_calls += 1;
        if l.clone_bomb == Some(k) {
            l.fired += 1;
            true
        } else {
            false
        }
    })
}

/// "Exactly once" oracle: ids in `live` have not been dropped, every other created id was
/// dropped exactly once, nothing was observed after its drop, no garbage, ZST totals balance
/// (`z_live` zero-sized elements are still alive).
pub fn check_exact(live: &[u32], z_live: u64) -> Result<(), String> {
    with(|l| {
        let mut is_live = vec![false; l.drops.len()];
        for &i in live {
            if (i as usize) >= is_live.len() {
                return Err(format!("live id {i} was never created"));
            }
            if is_live[i as usize] {
                return Err(format!("id {i} is live twice (duplicated element)"));
            }
            is_live[i as usize] = true;
        }
        for (i, &d) in l.drops.iter().enumerate() {
            let want = if is_live[i] { 0 } else { 1 };
            if d != want {
                return Err(format!(
                    "id {i}: dropped {d} time(s), expected {want}; drops={:?}",
                    l.drops
                ));
            }
        }
        common_checks(l)?;
        if l.z_dropped + z_live != l.z_created {
            return Err(format!(
                "zero-sized elements: created {} dropped {} live {}",
                l.z_created, l.z_dropped, z_live
            ));
        }
        Ok(())
    })
}

/// "Never twice" oracle (C05): leaks allowed, but no id dropped more than once, nothing observed
/// after drop, no garbage, ZST drops never exceed creations.  Returns the number of leaked ids
/// (created, not in `live`, never dropped).
pub fn check_no_double(live: &[u32]) -> Result<u32, String> {
    with(|l| {
        let mut leaked = 0;
        for (i, &d) in l.drops.iter().enumerate() {
            if d > 1 {
                return Err(format!("id {i}: dropped {d} times; drops={:?}", l.drops));
            }
            if d == 1 && live.contains(&(i as u32)) {
                return Err(format!(
                    "id {i} is still reachable but its destructor already ran; drops={:?}",
                    l.drops
                ));
            }
            if d == 0 && !live.contains(&(i as u32)) {
                leaked += 1;
            }
        }
        common_checks(l)?;
        Ok(leaked)
    })
}

fn common_checks(l: &Ledger) -> Result<(), String> {
    if let Some(i) = l.after_drop.iter().position(|&x| x > 0) {
        return Err(format!("id {i} observed after its destructor ran"));
    }
    if l.garbage > 0 {
        return Err(format!(
            "{} observation(s)/drop(s) of a value that is not a live tracked element (garbage id or damaged padding)",
            l.garbage
        ));
    }
    if l.z_over > 0 {
        return Err(format!(
            "zero-sized elements: at some point {} more drops than creations",
            l.z_over
        ));
    }
    Ok(())
}
