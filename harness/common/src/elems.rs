//! Element types used by the engines.

use crate::ledger::{self, Injected};
use std::fmt;
use std::hash::{Hash, Hasher};

/// Identity-carrying, drop-tracked element of size `4 * (1 + PAD)` bytes.
#[repr(C)]
pub struct Tr<const PAD: usize> {
    id: u32,
    pad: [u32; PAD],
}

#[inline]
fn pat(id: u32, j: usize) -> u32 {
    id.wrapping_mul(0x9E37_79B9) ^ (j as u32).wrapping_mul(0x85EB_CA6B) ^ 0xA5A5_5A5A
}

impl<const PAD: usize> Tr<PAD> {
    pub fn new() -> Self {
        let id = ledger::new_id();
        let mut pad = [0u32; PAD];
        for (j, p) in pad.iter_mut().enumerate() {
            *p = pat(id, j);
        }
        Tr { id, pad }
    }
    fn pad_ok(&self) -> bool {
        self.pad.iter().enumerate().all(|(j, &p)| p == pat(self.id & 0x7FFF_FFFF, j))
    }
    /// Observe the element: returns its id and records an after-drop observation if stale.
    pub fn id(&self) -> u32 {
        // (a slot read after its element was dropped in place carries the destructor's tombstone bit; the ledger books the
        // observation to the original identity, which is by then recorded as dropped)
        let id = self.id & 0x7FFF_FFFF;
        ledger::note_observe(id, self.pad_ok());
        id
    }
    /// Read the id without recording an observation (for the harness's own bookkeeping only).
    pub fn peek(&self) -> u32 {
        self.id & 0x7FFF_FFFF
    }
}

impl<const PAD: usize> Default for Tr<PAD> {
    /// `Default` counts as caller-supplied code: it is a fault point of the call plan.
    fn default() -> Self {
        ledger::tick("default");
        Self::new()
    }
}

impl<const PAD: usize> Drop for Tr<PAD> {
    fn drop(&mut self) {
        if !self.pad_ok() {
            ledger::with(|l| l.garbage += 1);
        }
        // (a second drop of the same slot finds the tombstone: it is still accounted to the original identity)
        let id = self.id & 0x7FFF_FFFF;
        // The destructor WRITES to its own storage (a tombstone): a destructor run through a pointer that was derived from a
        // shared reference is then a write through read-only provenance (visible to Miri), and a slot read again after its
        // element was dropped in place no longer shows a live-looking identity.
        self.id = id | 0x8000_0000;
        if ledger::note_drop(id) {
            std::panic::panic_any(Injected("drop"));
        }
    }
}

impl<const PAD: usize> Clone for Tr<PAD> {
    fn clone(&self) -> Self {
        let _ = self.id();
        if ledger::note_clone() {
            std::panic::panic_any(Injected("clone"));
        }
        let id = ledger::new_id_from(self.id & 0x7FFF_FFFF);
        let mut pad = [0u32; PAD];
        for (j, p) in pad.iter_mut().enumerate() {
            *p = pat(id, j);
        }
        Tr { id, pad }
    }
}

impl<const PAD: usize> PartialEq for Tr<PAD> {
    fn eq(&self, o: &Self) -> bool {
        self.id() == o.id()
    }
}
impl<const PAD: usize> Eq for Tr<PAD> {}
impl<const PAD: usize> fmt::Debug for Tr<PAD> {
    fn fmt(&self, f: &mut fmt::Formatter<'_>) -> fmt::Result {
        write!(f, "#{}", self.id())
    }
}
impl<const PAD: usize> Hash for Tr<PAD> {
    fn hash<H: Hasher>(&self, h: &mut H) {
        self.id().hash(h)
    }
}

/// Zero-sized drop-tracked element (identity impossible: totals only).
pub struct TrZ(());

impl TrZ {
    pub fn new() -> Self {
        ledger::note_zcreate();
        TrZ(())
    }
}
impl Default for TrZ {
    fn default() -> Self {
        ledger::tick("default");
        Self::new()
    }
}
impl Drop for TrZ {
    fn drop(&mut self) {
        if ledger::note_zdrop() {
            std::panic::panic_any(Injected("drop"));
        }
    }
}
impl Clone for TrZ {
    fn clone(&self) -> Self {
        if ledger::note_clone() {
            std::panic::panic_any(Injected("clone"));
        }
        TrZ::new()
    }
}
impl PartialEq for TrZ {
    fn eq(&self, _: &Self) -> bool {
        true
    }
}
impl fmt::Debug for TrZ {
    fn fmt(&self, f: &mut fmt::Formatter<'_>) -> fmt::Result {
        write!(f, "Z")
    }
}

thread_local! {
    static PLAIN: std::cell::Cell<u32> = const { std::cell::Cell::new(0) };
}
pub fn plain_reset() {
    PLAIN.with(|c| c.set(0));
}
fn plain_next() -> u32 {
    PLAIN.with(|c| {
        let v = c.get();
        c.set(v + 1);
        v
    })
}

/// Uniform interface over tracked and plain element types so engines can be generic.
pub trait Elem: Sized + Clone + fmt::Debug + 'static {
    const NAME: &'static str;
    /// has a ledger identity
    const TRACKED: bool;
    const ZST: bool;
    /// `Clone::clone` of this type is counted by the ledger (and can be made to panic)
    const COUNTS_CLONES: bool = false;
    /// fresh element (fresh id / fresh counter value)
    fn make() -> Self;
    /// identity of this element (an *observation*)
    fn ident(&self) -> u32;
    /// is `self` a clone of `orig` (tracked: by recorded parentage; plain: by value)
    fn is_clone_of(&self, orig: &Self) -> bool;
    /// split a list of identities into (ledger ids that must be live, live zero-sized count)
    fn live_of(ids: &[u32]) -> (Vec<u32>, u64) {
        let _ = ids;
        (Vec::new(), 0)
    }
}

macro_rules! impl_tr {
    ($pad:literal, $name:literal) => {
        impl Elem for Tr<$pad> {
            const NAME: &'static str = $name;
            const TRACKED: bool = true;
            const ZST: bool = false;
            const COUNTS_CLONES: bool = true;
            fn make() -> Self {
                Tr::new()
            }
            fn ident(&self) -> u32 {
                self.id()
            }
            fn is_clone_of(&self, orig: &Self) -> bool {
                ledger::parent(self.id()) == orig.id()
            }
            fn live_of(ids: &[u32]) -> (Vec<u32>, u64) {
                (ids.to_vec(), 0)
            }
        }
    };
}
impl_tr!(0, "Tr4");
impl_tr!(1, "Tr8");
impl_tr!(5, "Tr24");
impl_tr!(31, "Tr128");

impl Elem for TrZ {
    const NAME: &'static str = "TrZ";
    const TRACKED: bool = false;
    const ZST: bool = true;
    const COUNTS_CLONES: bool = true;
    fn make() -> Self {
        TrZ::new()
    }
    fn ident(&self) -> u32 {
        0
    }
    fn is_clone_of(&self, _: &Self) -> bool {
        true
    }
    fn live_of(ids: &[u32]) -> (Vec<u32>, u64) {
        (Vec::new(), ids.len() as u64)
    }
}

impl Elem for u32 {
    const NAME: &'static str = "u32";
    const TRACKED: bool = false;
    const ZST: bool = false;
    fn make() -> Self {
        plain_next()
    }
    fn is_clone_of(&self, o: &Self) -> bool {
        self == o
    }
    fn ident(&self) -> u32 {
        *self
    }
}
impl Elem for u8 {
    const NAME: &'static str = "u8";
    const TRACKED: bool = false;
    const ZST: bool = false;
    fn make() -> Self {
        plain_next() as u8
    }
    fn is_clone_of(&self, o: &Self) -> bool {
        self == o
    }
    fn ident(&self) -> u32 {
        *self as u32
    }
}
impl Elem for u16 {
    const NAME: &'static str = "u16";
    const TRACKED: bool = false;
    const ZST: bool = false;
    fn make() -> Self {
        plain_next() as u16
    }
    fn is_clone_of(&self, o: &Self) -> bool {
        self == o
    }
    fn ident(&self) -> u32 {
        *self as u32
    }
}
impl Elem for u64 {
    const NAME: &'static str = "u64";
    const TRACKED: bool = false;
    const ZST: bool = false;
    fn make() -> Self {
        let v = plain_next() as u64;
        v | (v.wrapping_mul(0x0101_0101) << 32)
    }
    fn is_clone_of(&self, o: &Self) -> bool {
        self == o
    }
    fn ident(&self) -> u32 {
        *self as u32
    }
}
impl Elem for () {
    const NAME: &'static str = "unit";
    const TRACKED: bool = false;
    const ZST: bool = true;
    fn make() -> Self {}
    fn is_clone_of(&self, _: &Self) -> bool {
        true
    }
    fn ident(&self) -> u32 {
        0
    }
}
/// 24-byte plain element
impl Elem for [u8; 24] {
    const NAME: &'static str = "b24";
    const TRACKED: bool = false;
    const ZST: bool = false;
    fn make() -> Self {
        let v = plain_next();
        let mut a = [0u8; 24];
        for (j, b) in a.iter_mut().enumerate() {
            *b = (v as u8).wrapping_mul(31).wrapping_add(j as u8);
        }
        a[0..4].copy_from_slice(&v.to_le_bytes());
        a
    }
    fn is_clone_of(&self, o: &Self) -> bool {
        self == o
    }
    fn ident(&self) -> u32 {
        let v = u32::from_le_bytes([self[0], self[1], self[2], self[3]]);
        // integrity of the tail
        for j in 4..24 {
            if self[j] != (v as u8).wrapping_mul(31).wrapping_add(j as u8) {
                return u32::MAX;
            }
        }
        v
    }
}

/// Drop-tracked element with a real heap payload: under AddressSanitizer / Miri a double drop is
/// a double free and a stale read is a use-after-free, on top of what the ledger records.
pub struct TrB {
    tr: Tr<0>,
    payload: Box<u32>,
}
impl TrB {
    pub fn new() -> Self {
        let tr = Tr::<0>::new();
        let payload = Box::new(tr.peek() ^ 0x5A5A_0000);
        TrB { tr, payload }
    }
}
impl Default for TrB {
    fn default() -> Self {
        ledger::tick("default");
        TrB::new()
    }
}
impl Clone for TrB {
    fn clone(&self) -> Self {
        let tr = self.tr.clone();
        let payload = Box::new(tr.peek() ^ 0x5A5A_0000);
        TrB { tr, payload }
    }
}
impl fmt::Debug for TrB {
    fn fmt(&self, f: &mut fmt::Formatter<'_>) -> fmt::Result {
        write!(f, "B#{}", self.tr.peek())
    }
}
impl Elem for TrB {
    const NAME: &'static str = "TrB";
    const TRACKED: bool = true;
    const ZST: bool = false;
    const COUNTS_CLONES: bool = true;
    fn make() -> Self {
        TrB::new()
    }
    fn ident(&self) -> u32 {
        let id = self.tr.id();
        if *self.payload != id ^ 0x5A5A_0000 {
            ledger::with(|l| l.garbage += 1);
        }
        id
    }
    fn is_clone_of(&self, orig: &Self) -> bool {
        self.tr.is_clone_of(&orig.tr)
    }
    fn live_of(ids: &[u32]) -> (Vec<u32>, u64) {
        (ids.to_vec(), 0)
    }
}

/// Clone-but-not-Copy element with NO drop glue whose clones are counted: selects the crate's
/// `needs_drop == false` code paths while keeping `Clone::clone` observable.
#[derive(Debug, PartialEq)]
pub struct Nd(pub u32);
impl Clone for Nd {
    fn clone(&self) -> Self {
        if ledger::note_clone() {
            std::panic::panic_any(Injected("clone"));
        }
        Nd(self.0)
    }
}
impl Default for Nd {
    fn default() -> Self {
        ledger::tick("default");
        Nd(plain_next())
    }
}
impl Elem for Nd {
    const NAME: &'static str = "Nd";
    const TRACKED: bool = false;
    const ZST: bool = false;
    const COUNTS_CLONES: bool = true;
    fn make() -> Self {
        Nd(plain_next())
    }
    fn is_clone_of(&self, o: &Self) -> bool {
        self.0 == o.0
    }
    fn ident(&self) -> u32 {
        self.0
    }
}

/// ONE-BYTE Clone-but-not-Copy element with no drop glue, stateful `Default` (serial numbers) and counted `Clone`:
/// selects "looks like a byte" fast paths (memset / memcpy) while keeping caller code observable.
#[derive(Debug, PartialEq)]
pub struct Nb(pub u8);
impl Clone for Nb {
    fn clone(&self) -> Self {
        if ledger::note_clone() {
            std::panic::panic_any(Injected("clone"));
        }
        Nb(self.0)
    }
}
impl Default for Nb {
    fn default() -> Self {
        ledger::tick("default");
        Nb(plain_next() as u8)
    }
}
impl Elem for Nb {
    const NAME: &'static str = "Nb";
    const TRACKED: bool = false;
    const ZST: bool = false;
    const COUNTS_CLONES: bool = true;
    fn make() -> Self {
        Nb(plain_next() as u8)
    }
    fn is_clone_of(&self, o: &Self) -> bool {
        self.0 == o.0
    }
    fn ident(&self) -> u32 {
        self.0 as u32
    }
}

/// Zero-sized element WITHOUT drop glue whose `Default` and `Clone` calls are counted: selects the
/// zero-sized *and* `needs_drop == false` code paths while keeping caller code observable.
#[derive(Debug, PartialEq)]
pub struct Zn;
impl Clone for Zn {
    fn clone(&self) -> Self {
        if ledger::note_clone() {
            std::panic::panic_any(Injected("clone"));
        }
        Zn
    }
}
impl Default for Zn {
    fn default() -> Self {
        ledger::tick("default");
        Zn
    }
}
impl Elem for Zn {
    const NAME: &'static str = "Zn";
    const TRACKED: bool = false;
    const ZST: bool = true;
    const COUNTS_CLONES: bool = true;
    fn make() -> Self {
        Zn
    }
    fn is_clone_of(&self, _: &Self) -> bool {
        true
    }
    fn ident(&self) -> u32 {
        0
    }
}

/// reset ledger and plain counters (start of every case)
pub fn reset_all() {
    ledger::reset();
    plain_reset();
}

// ---- elements with an unusual *representation* (not just an unusual size) ----

/// 3-byte plain element (size not a multiple of its neighbours' alignment; arrays of it have odd byte lengths)
#[derive(Clone, Copy, PartialEq, Eq, Debug, Hash, PartialOrd, Ord, Default)]
#[repr(C)]
pub struct B3(pub [u8; 3]);
impl Elem for B3 {
    const NAME: &'static str = "b3";
    const TRACKED: bool = false;
    const ZST: bool = false;
    fn make() -> Self {
        let v = plain_next();
        B3([v as u8, (v >> 8) as u8, (v >> 16) as u8])
    }
    fn is_clone_of(&self, o: &Self) -> bool {
        self == o
    }
    fn ident(&self) -> u32 {
        self.0[0] as u32 | (self.0[1] as u32) << 8 | (self.0[2] as u32) << 16
    }
}

/// over-aligned plain element: 4 bytes of payload, size and alignment 64
#[derive(Clone, Copy, PartialEq, Eq, Debug, Hash, PartialOrd, Ord, Default)]
#[repr(C, align(64))]
pub struct A64(pub u32);
impl Elem for A64 {
    const NAME: &'static str = "a64";
    const TRACKED: bool = false;
    const ZST: bool = false;
    fn make() -> Self {
        A64(plain_next())
    }
    fn is_clone_of(&self, o: &Self) -> bool {
        self == o
    }
    fn ident(&self) -> u32 {
        // an over-aligned element that sits at a misaligned address was put there by a wrong offset computation
        if (self as *const Self as usize) % 64 != 0 {
            ledger::with(|l| l.garbage += 1);
        }
        self.0
    }
}

/// over-aligned drop-tracked element (12 bytes of payload, size and alignment 32)
#[repr(C, align(32))]
pub struct TrA(Tr<2>);
impl Default for TrA {
    fn default() -> Self {
        TrA(Tr::default())
    }
}
impl Clone for TrA {
    fn clone(&self) -> Self {
        TrA(self.0.clone())
    }
}
impl PartialEq for TrA {
    fn eq(&self, o: &Self) -> bool {
        self.0 == o.0
    }
}
impl Eq for TrA {}
impl fmt::Debug for TrA {
    fn fmt(&self, f: &mut fmt::Formatter<'_>) -> fmt::Result {
        self.0.fmt(f)
    }
}
impl Elem for TrA {
    const NAME: &'static str = "TrA32";
    const TRACKED: bool = true;
    const ZST: bool = false;
    const COUNTS_CLONES: bool = true;
    fn make() -> Self {
        TrA(Tr::new())
    }
    fn ident(&self) -> u32 {
        if (self as *const Self as usize) % 32 != 0 {
            ledger::with(|l| l.garbage += 1);
        }
        self.0.id()
    }
    fn is_clone_of(&self, orig: &Self) -> bool {
        ledger::parent(self.0.id()) == orig.0.id()
    }
    fn live_of(ids: &[u32]) -> (Vec<u32>, u64) {
        (ids.to_vec(), 0)
    }
}
