//! Case bookkeeping shared by all engines.
//!
//! Protocol (stdout, one JSON value per line after the tag):
//!   `CASE <descriptor>`   only with --trace: printed (and flushed) before a case runs
//!   `VIOL <json>`         a violation: {desc, what, stable}
//!   `RESULT <json>`       final coverage summary
//! Exit status of an engine: 0 = ran to completion (violations are reported on stdout),
//! 2 = machinery failure.

use crate::{elems, PanicKind};
use serde_json::{json, Map, Value};
use std::collections::{BTreeMap, HashSet};
use std::io::Write;
use std::time::Instant;

#[derive(Clone, Copy, PartialEq, Eq, Debug)]
pub enum Tier {
    Quick,
    Thorough,
}

pub struct CaseInfo {
    /// non-trivial by the engine's stated rule (touched >=1 element, fault fired, N>0 ...)
    pub nontrivial: bool,
    /// outcome class label (for the distinct-outcomes vacuity guard)
    pub outcome: String,
}

impl CaseInfo {
    pub fn new(nontrivial: bool, outcome: impl Into<String>) -> Self {
        CaseInfo { nontrivial, outcome: outcome.into() }
    }
}

pub struct Ctx {
    pub mode: String,
    pub tier: Tier,
    pub only: Option<String>,
    pub trace: bool,
    pub shard: (usize, usize),
    pub extra: BTreeMap<String, String>,
    next_index: usize,
    seen: HashSet<u64>,
    pub evaluations: u64,
    pub nontrivial: u64,
    pub outcomes: BTreeMap<String, u64>,
    pub counters: BTreeMap<String, u64>,
    pub samples: Vec<Value>,
    pub violations: Vec<Value>,
    /// total number of violating cases (the list above is capped)
    pub viol_count: u64,
    pub notes: Vec<String>,
    pub max_samples: usize,
    pub max_violations: usize,
    pub machinery_errors: Vec<String>,
    pub start: Instant,
    pub capped: bool,
}

fn fnv(s: &str) -> u64 {
    let mut h = 0xcbf29ce484222325u64;
    for b in s.bytes() {
        h ^= b as u64;
        h = h.wrapping_mul(0x100000001b3);
    }
    h
}

impl Ctx {
    pub fn from_args() -> Ctx {
        let mut mode = String::new();
        let mut tier = Tier::Quick;
        let mut only = None;
        let mut trace = false;
        let mut shard = (0usize, 1usize);
        let mut extra = BTreeMap::new();
        let args: Vec<String> = std::env::args().skip(1).collect();
        let mut i = 0;
        while i < args.len() {
            match args[i].as_str() {
                "--mode" => {
                    mode = args[i + 1].clone();
                    i += 1;
                }
                "--tier" => {
                    tier = match args[i + 1].as_str() {
                        "quick" => Tier::Quick,
                        "thorough" => Tier::Thorough,
                        t => {
                            eprintln!("unknown tier {t}");
                            std::process::exit(2)
                        }
                    };
                    i += 1;
                }
                "--only" => {
                    only = Some(args[i + 1].clone());
                    i += 1;
                }
                "--trace" => trace = true,
                "--shard" => {
                    let (a, b) = args[i + 1].split_once('/').expect("--shard i/n");
                    shard = (a.parse().unwrap(), b.parse().unwrap());
                    i += 1;
                }
                s if s.starts_with("--") && i + 1 < args.len() => {
                    extra.insert(s[2..].to_string(), args[i + 1].clone());
                    i += 1;
                }
                s => {
                    eprintln!("unknown argument {s}");
                    std::process::exit(2)
                }
            }
            i += 1;
        }
        crate::install_hook();
        // reduced-bound runs (Miri substrate): lengths above --maxn are skipped by the engines' length loops
        if only.is_none() {
            if let Some(m) = extra.get("maxn").and_then(|s| s.parse::<usize>().ok()) {
                crate::MAXN.store(m, std::sync::atomic::Ordering::Relaxed);
            }
        }
        Ctx {
            mode,
            tier,
            only,
            trace,
            shard,
            extra,
            next_index: 0,
            seen: HashSet::new(),
            evaluations: 0,
            nontrivial: 0,
            outcomes: BTreeMap::new(),
            counters: BTreeMap::new(),
            samples: Vec::new(),
            violations: Vec::new(),
            viol_count: 0,
            notes: Vec::new(),
            max_samples: 12,
            max_violations: 40,
            machinery_errors: Vec::new(),
            start: Instant::now(),
            capped: false,
        }
    }

    pub fn thorough(&self) -> bool {
        self.tier == Tier::Thorough
    }

    pub fn count(&mut self, key: &str, by: u64) {
        *self.counters.entry(key.to_string()).or_insert(0) += by;
    }

    /// Does this process own work unit `k` (for engines that shard by graph/length, not by case)?
    pub fn owns_unit(&self, k: usize) -> bool {
        k % self.shard.1 == self.shard.0
    }

    /// Filter by --only / --shard, print trace line.  Returns true if the case must be run.
    /// `by_case_shard`: whether sharding applies at case granularity.
    fn admit(&mut self, desc: &str, by_case_shard: bool) -> bool {
        let idx = self.next_index;
        self.next_index += 1;
        if let Some(o) = &self.only {
            if o != desc {
                return false;
            }
        } else if by_case_shard && idx % self.shard.1 != self.shard.0 {
            return false;
        }
        if self.trace {
            let mut out = std::io::stdout().lock();
            let _ = writeln!(out, "CASE {desc}");
            let _ = out.flush();
        }
        true
    }

    /// Engines that need a fault-free pre-run of a scenario in EVERY shard (to learn its fault points) call this first: in trace mode
    /// the scenario's fault-free descriptor is printed, so that a death inside the pre-run (a memory monitor aborting the process, a std
    /// precondition check) is attributed to that case by the driver instead of being an engine death outside any case. Returns false if
    /// the run is a single-case replay of a different scenario (the pre-run is then skipped).
    pub fn prerun(&self, scenario: &str, fault_free_desc: &str) -> bool {
        if let Some(o) = &self.only {
            if !o.starts_with(scenario) {
                return false;
            }
        }
        if self.trace {
            let mut out = std::io::stdout().lock();
            let _ = writeln!(out, "CASE {fault_free_desc}");
            let _ = out.flush();
        }
        true
    }

    /// Run one case.  `f` must be deterministic and re-runnable: it is executed once, and a
    /// second time if the first run reports a violation (the two reports must be identical).
    /// An unexpected (non-injected, uncaught) panic inside `f` is itself a violation.
    pub fn case(&mut self, desc: &str, f: impl Fn() -> Result<CaseInfo, String>) {
        self.case_opt(desc, true, f)
    }

    /// Like `case` but the engine shards by unit itself (`owns_unit`).
    pub fn case_unsharded(&mut self, desc: &str, f: impl Fn() -> Result<CaseInfo, String>) {
        self.case_opt(desc, false, f)
    }

    fn case_opt(&mut self, desc: &str, by_case_shard: bool, f: impl Fn() -> Result<CaseInfo, String>) {
        if !self.admit(desc, by_case_shard) {
            return;
        }
        let run = |f: &dyn Fn() -> Result<CaseInfo, String>| -> Result<CaseInfo, String> {
            elems::reset_all();
            let r = match crate::catch(f) {
                Ok(r) => r,
                Err(PanicKind::Injected(t)) => Err(format!("injected panic '{t}' escaped the case's own catch (harness bug?)")),
                Err(PanicKind::Other(m)) => Err(format!("unexpected panic: {m}")),
            };
            r
        };
        let first = run(&f);
        self.evaluations += 1;
        match first {
            Ok(info) => {
                if !self.seen.insert(fnv(desc)) {
                    self.machinery_errors.push(format!("duplicate case descriptor {desc}"));
                }
                if info.nontrivial {
                    self.nontrivial += 1;
                }
                *self.outcomes.entry(info.outcome.clone()).or_insert(0) += 1;
                // spread samples over the enumeration: keep first few and then powers of two
                let e = self.evaluations;
                if self.samples.len() < self.max_samples && (e <= 3 || e.is_power_of_two()) {
                    self.samples.push(json!({"case": desc, "outcome": info.outcome}));
                }
            }
            Err(what) => {
                let second = run(&f);
                let stable = match &second {
                    Err(w2) => *w2 == what,
                    Ok(_) => false,
                };
                if !stable {
                    self.machinery_errors.push(format!(
                        "case {desc} is not deterministic: first run '{what}', second run {:?}",
                        second.as_ref().map(|i| i.outcome.clone())
                    ));
                }
                let v = json!({"desc": desc, "what": what, "stable": stable});
                {
                    let mut out = std::io::stdout().lock();
                    let _ = writeln!(out, "VIOL {v}");
                    let _ = out.flush();
                }
                self.viol_count += 1;
                if self.violations.len() < self.max_violations {
                    self.violations.push(v);
                }
                *self.outcomes.entry("VIOLATION".into()).or_insert(0) += 1;
            }
        }
    }

    /// Book-keeping for engines that run their cases themselves (e.g. on worker threads).
    pub fn record_ok(&mut self, desc: &str, nontrivial: bool, outcome: &str) {
        if nontrivial {
            self.nontrivial += 1;
        }
        *self.outcomes.entry(outcome.to_string()).or_insert(0) += 1;
        let e = self.evaluations;
        if self.samples.len() < self.max_samples && (e <= 3 || e.is_power_of_two()) {
            self.samples.push(json!({"case": desc, "outcome": outcome}));
        }
    }

    pub fn record_violation(&mut self, desc: &str, what: &str, stable: bool) {
        if !stable {
            self.machinery_errors.push(format!("case {desc} is not deterministic: '{what}' did not reproduce"));
        }
        let v = json!({"desc": desc, "what": what, "stable": stable});
        {
            let mut out = std::io::stdout().lock();
            let _ = writeln!(out, "VIOL {v}");
            let _ = out.flush();
        }
        self.viol_count += 1;
        if self.violations.len() < self.max_violations {
            self.violations.push(v);
        }
        *self.outcomes.entry("VIOLATION".into()).or_insert(0) += 1;
    }

    /// true once so many violations were reported that further exploration is pointless
    pub fn too_many_violations(&mut self) -> bool {
        if self.viol_count >= self.max_violations as u64 {
            self.capped = true;
            true
        } else {
            false
        }
    }

    /// Wall-clock cap inside the engine: returns true once exceeded (and remembers it).
    pub fn over_budget(&mut self, secs: u64) -> bool {
        if self.start.elapsed().as_secs() >= secs {
            self.capped = true;
            true
        } else {
            false
        }
    }

    pub fn finish(self, extra: Value) -> ! {
        let mut m = Map::new();
        m.insert("mode".into(), json!(self.mode));
        m.insert("shard".into(), json!([self.shard.0, self.shard.1]));
        m.insert("evaluations".into(), json!(self.evaluations));
        m.insert("distinct_nontrivial".into(), json!(self.nontrivial));
        m.insert("outcomes".into(), json!(self.outcomes));
        m.insert("counters".into(), json!(self.counters));
        m.insert("samples".into(), json!(self.samples));
        m.insert("violations".into(), json!(self.viol_count));
        m.insert("notes".into(), json!(self.notes));
        m.insert("capped".into(), json!(self.capped));
        m.insert("machinery_errors".into(), json!(self.machinery_errors));
        m.insert("wall_s".into(), json!(self.start.elapsed().as_secs_f64()));
        if let Value::Object(e) = extra {
            for (k, v) in e {
                m.insert(k, v);
            }
        }
        let mut out = std::io::stdout().lock();
        let _ = writeln!(out, "RESULT {}", Value::Object(m));
        let _ = out.flush();
        drop(out);
        std::process::exit(if self.machinery_errors.is_empty() { 0 } else { 2 });
    }
}
