//! C13 — ==, ordering, Hash and Debug of an array agree with its slice.

use super::*;
use std::borrow::Borrow;
use std::collections::{BTreeMap, HashMap};
use std::fmt::Debug;
use std::hash::{Hash, Hasher};

/// Hasher that records every call verbatim: *which* `Hasher` method was called and with what bytes.  A portable or
/// type-tagging hasher treats `write_usize` and `write_u64` differently (and they differ on a 32-bit target), so
/// "feeds a hasher exactly what hashing its slice feeds it" is about the calls, not only the byte stream.
#[derive(Default)]
struct RecHasher {
    writes: Vec<(&'static str, Vec<u8>)>,
}
macro_rules! rec_methods {
    ($($m:ident: $t:ty),*) => { $(fn $m(&mut self, i: $t) { self.writes.push((stringify!($m), i.to_ne_bytes().to_vec())); })* };
}
impl Hasher for RecHasher {
    fn finish(&self) -> u64 {
        0
    }
    fn write(&mut self, bytes: &[u8]) {
        self.writes.push(("write", bytes.to_vec()));
    }
    rec_methods!(write_u8: u8, write_u16: u16, write_u32: u32, write_u64: u64, write_u128: u128, write_usize: usize,
                 write_i8: i8, write_i16: i16, write_i32: i32, write_i64: i64, write_i128: i128, write_isize: isize);
}

fn build<T: Clone, N: ArrayLength>(alphabet: &[T], mut code: usize) -> GA<T, N> {
    let mut a = GA::<T, N>::uninit();
    for s in a.iter_mut() {
        s.write(alphabet[code % alphabet.len()].clone());
        code /= alphabet.len();
    }
    unsafe { GA::assume_init(a) }
}

fn cmp_pair<T: PartialOrd + Debug, N: ArrayLength>(a: &GA<T, N>, b: &GA<T, N>) -> Result<(), String> {
    let (sa, sb) = (a.as_slice(), b.as_slice());
    macro_rules! chk {
        ($name:literal, $x:expr, $y:expr) => {
            if ($x) != ($y) {
                return Err(format!("{}: arrays give {:?}, slices give {:?} for {a:?} vs {b:?}", $name, $x, $y));
            }
        };
    }
    chk!("==", a == b, sa == sb);
    chk!("!=", a != b, sa != sb);
    chk!("partial_cmp", a.partial_cmp(b), sa.partial_cmp(sb));
    chk!("<", a < b, sa < sb);
    chk!("<=", a <= b, sa <= sb);
    chk!(">", a > b, sa > sb);
    chk!(">=", a >= b, sa >= sb);
    Ok(())
}

fn ord_pair<T: Ord + Debug, N: ArrayLength>(a: &GA<T, N>, b: &GA<T, N>) -> Result<(), String> {
    if a.cmp(b) != a.as_slice().cmp(b.as_slice()) {
        return Err(format!("cmp: arrays give {:?}, slices give {:?} for {a:?} vs {b:?}", a.cmp(b), a.as_slice().cmp(b.as_slice())));
    }
    if a.clone_max(b) != (a.as_slice() >= b.as_slice()) {
        return Err("max() picks a different operand than the slices' order".into());
    }
    Ok(())
}
trait CloneMax {
    fn clone_max(&self, o: &Self) -> bool;
}
impl<T: Ord, N: ArrayLength> CloneMax for GA<T, N> {
    /// true if self >= o according to Ord (what max/min/sort rely on)
    fn clone_max(&self, o: &Self) -> bool {
        self.cmp(o) != std::cmp::Ordering::Less
    }
}

fn hash_one<T: Hash + Debug, N: ArrayLength>(a: &GA<T, N>) -> Result<usize, String> {
    let mut h1 = RecHasher::default();
    a.hash(&mut h1);
    let mut h2 = RecHasher::default();
    a.as_slice().hash(&mut h2);
    if h1.writes != h2.writes {
        return Err(format!("Hash of {a:?} feeds the hasher {:?}, the slice feeds it {:?}", h1.writes, h2.writes));
    }
    Ok(h1.writes.len())
}

const FLAGS: &[&str] = &["{:?}", "{:#?}", "{:5?}", "{:.1?}", "{:08.3?}", "{:x?}", "{:#X?}", "{:<7?}", "{:+?}"];

fn fmt_with<D: Debug + ?Sized>(flag: &str, v: &D) -> String {
    match flag {
        "{:?}" => format!("{:?}", v),
        "{:#?}" => format!("{:#?}", v),
        "{:5?}" => format!("{:5?}", v),
        "{:.1?}" => format!("{:.1?}", v),
        "{:08.3?}" => format!("{:08.3?}", v),
        "{:x?}" => format!("{:x?}", v),
        "{:#X?}" => format!("{:#X?}", v),
        "{:<7?}" => format!("{:<7?}", v),
        _ => format!("{:+?}", v),
    }
}

fn debug_one<T: Debug, N: ArrayLength>(a: &GA<T, N>) -> Result<(), String> {
    for f in FLAGS {
        let g = fmt_with(f, a);
        let w = fmt_with(f, a.as_slice());
        if g != w {
            return Err(format!("Debug with {f}: array prints {g:?}, slice prints {w:?}"));
        }
    }
    Ok(())
}

fn map_lookup<T: Clone + Ord + Hash + Debug, N: ArrayLength>(alphabet: &[T], total: usize) -> Result<(), String> {
    let mut hm: HashMap<GA<T, N>, usize> = HashMap::new();
    let mut bm: BTreeMap<GA<T, N>, usize> = BTreeMap::new();
    for code in 0..total {
        hm.insert(build::<T, N>(alphabet, code), code);
        bm.insert(build::<T, N>(alphabet, code), code);
    }
    for code in 0..total {
        let key: Vec<T> = build::<T, N>(alphabet, code).as_slice().to_vec();
        let k: &[T] = &key;
        if hm.get(k) != Some(&code) {
            return Err(format!("HashMap keyed by arrays: lookup of {k:?} through Borrow<[T]> gives {:?}, expected {code}", hm.get(k)));
        }
        if bm.get(k) != Some(&code) {
            return Err(format!("BTreeMap keyed by arrays: lookup of {k:?} through Borrow<[T]> gives {:?}, expected {code}", bm.get(k)));
        }
        let arr = build::<T, N>(alphabet, code);
        let b: &[T] = arr.borrow();
        if b.as_ptr() != arr.as_ptr() || b.len() != N::USIZE {
            return Err("Borrow<[T]> is not the array's storage".into());
        }
    }
    Ok(())
}

/// exhaustive: all pairs over the alphabet (N <= 4)
fn all_pairs<T: Clone + PartialOrd + Debug, N: ArrayLength>(ctx: &mut Ctx, tname: &str, alphabet: &[T], ord: Option<&dyn Fn(&GA<T, N>, &GA<T, N>) -> Result<(), String>>) {
    let n = N::USIZE;
    let total = alphabet.len().pow(n as u32);
    for ca in 0..total {
        let d = format!("C13;pairs;T={tname};N={n};a={ca}");
        ctx.case(&d, || {
            let a = build::<T, N>(alphabet, ca);
            // an array compared with itself (same object): still the slices' answer (NaN != NaN)
            cmp_pair(&a, &a)?;
            if let Some(o) = ord {
                o(&a, &a)?;
            }
            let mut distinct = std::collections::BTreeSet::new();
            for cb in 0..total {
                let b = build::<T, N>(alphabet, cb);
                cmp_pair(&a, &b)?;
                if let Some(o) = ord {
                    o(&a, &b)?;
                }
                distinct.insert(format!("{:?}", a.partial_cmp(&b)));
            }
            debug_one(&a)?;
            Ok(CaseInfo::new(n > 0, format!("orderings-seen:{}", distinct.len())))
        });
    }
}

/// larger N: equal / differ only at p / differ at p and at a later q with opposite sign
fn family<T: Clone + PartialOrd + Debug, N: ArrayLength>(ctx: &mut Ctx, tname: &str, lo: T, mid: T, hi: T, ord: Option<&dyn Fn(&GA<T, N>, &GA<T, N>) -> Result<(), String>>) {
    let n = N::USIZE;
    let base: Vec<T> = (0..n).map(|_| mid.clone()).collect();
    let mk = |v: &Vec<T>| -> GA<T, N> {
        let mut a = GA::<T, N>::uninit();
        for (s, x) in a.iter_mut().zip(v.iter()) {
            s.write(x.clone());
        }
        unsafe { GA::assume_init(a) }
    };
    for p in 0..n {
        ctx.case(&format!("C13;family;T={tname};N={n};p={p}"), || {
            let a = mk(&base);
            let mut v = base.clone();
            v[p] = hi.clone();
            let b = mk(&v);
            cmp_pair(&a, &b)?;
            cmp_pair(&b, &a)?;
            cmp_pair(&a, &a)?;
            if let Some(o) = ord {
                o(&a, &b)?;
                o(&b, &a)?;
            }
            // a later difference with the opposite sign must not matter
            let qs: Vec<usize> = if n <= 33 { (p + 1..n).collect() } else { [p + 1, (p + n) / 2, n - 1].into_iter().filter(|&q| q > p && q < n).collect() };
            for q in qs {
                let mut w = v.clone();
                w[q] = lo.clone();
                let c = mk(&w);
                cmp_pair(&a, &c)?;
                cmp_pair(&c, &a)?;
                cmp_pair(&b, &c)?;
                if let Some(o) = ord {
                    o(&a, &c)?;
                    o(&c, &b)?;
                }
            }
            debug_one(&b)?;
            Ok(CaseInfo::new(true, "family"))
        });
    }
}

macro_rules! for_ns {
    ([$($n:ty),*], $N:ident => $body:block) => { $( { type $N = $n; if <$N as generic_array::typenum::Unsigned>::USIZE <= vcommon::maxn() { $body } } )* };
}

pub fn run(ctx: &mut Ctx) {
    for_ns!([U0, U1, U2, U3, U4], N => {
        let n = N::USIZE;
        let total = 3usize.pow(n as u32);
        // u8
        let al_u8 = [0u8, 1, 255];
        all_pairs::<u8, N>(ctx, "u8", &al_u8, Some(&|a, b| ord_pair(a, b)));
        let al_i32 = [-1i32, 0, 1];
        all_pairs::<i32, N>(ctx, "i32", &al_i32, Some(&|a, b| ord_pair(a, b)));
        let al_f64 = [f64::NAN, 0.0, 1.5];
        all_pairs::<f64, N>(ctx, "f64", &al_f64, None);
        let al_f64z = [-0.0f64, 0.0, f64::NAN];
        all_pairs::<f64, N>(ctx, "f64z", &al_f64z, None);
        let al_s = [String::new(), "a".to_string(), "b".to_string()];
        all_pairs::<String, N>(ctx, "String", &al_s, Some(&|a, b| ord_pair(a, b)));
        let al_n: [GA<u8, U2>; 3] = [GA::from([0u8, 0]), GA::from([0u8, 1]), GA::from([1u8, 0])];
        all_pairs::<GA<u8, U2>, N>(ctx, "GA<u8,U2>", &al_n, Some(&|a, b| ord_pair(a, b)));
        // hashing: every array of the family
        macro_rules! hashes {
            ($T:ty, $name:literal, $al:expr) => {
                ctx.case(&format!("C13;hash;T={};N={n}", $name), || {
                    let mut streams = std::collections::BTreeSet::new();
                    for code in 0..total {
                        let a = build::<$T, N>(&$al, code);
                        hash_one(&a)?;
                        let mut h = RecHasher::default();
                        a.hash(&mut h);
                        streams.insert(h.writes);
                    }
                    map_lookup::<$T, N>(&$al, total)?;
                    Ok(CaseInfo::new(true, format!("hash-streams:{}", if streams.len() == total { "all-distinct" } else { "collisions" })))
                });
            };
        }
        hashes!(u8, "u8", al_u8);
        hashes!(i32, "i32", al_i32);
        hashes!(String, "String", al_s);
        hashes!(GA<u8, U2>, "GA<u8,U2>", al_n);
    });
    for_ns!([U5, U8, U16, U33, U100], N => {
        let n = N::USIZE;
        family::<u8, N>(ctx, "u8", 0, 7, 255, Some(&|a, b| ord_pair(a, b)));
        family::<i32, N>(ctx, "i32", -5, 0, 5, Some(&|a, b| ord_pair(a, b)));
        family::<f64, N>(ctx, "f64", -1.0, 0.0, 2.5, None);
        family::<f64, N>(ctx, "f64nan", f64::NAN, 0.0, 2.5, None);
        family::<f64, N>(ctx, "f64nan2", -1.0, 0.0, f64::NAN, None);
        family::<String, N>(ctx, "String", String::new(), "m".to_string(), "z".to_string(), Some(&|a, b| ord_pair(a, b)));
        ctx.case(&format!("C13;hash-family;N={n}"), || {
            for p in 0..n {
                let mut a = GA::<u32, N>::default();
                a[p] = 0xDEAD_0000 + p as u32;
                hash_one(&a)?;
                let mut s = GA::<String, N>::default();
                s[p] = format!("k{p}");
                hash_one(&s)?;
                let mut hm: HashMap<GA<u32, N>, usize> = HashMap::new();
                hm.insert(a.clone(), p);
                if hm.get(a.as_slice()) != Some(&p) {
                    return Err("HashMap lookup through Borrow<[T]> failed".into());
                }
            }
            Ok(CaseInfo::new(true, "hash-family"))
        });
    });
}
