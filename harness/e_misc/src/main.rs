//! C13 (comparison / hashing / Debug vs the slice), C17 (serde), C19 (zeroize / const-default).

use generic_array::typenum::consts::*;
pub use generic_array::typenum::Unsigned;
use generic_array::{ArrayLength, GenericArray};
use vcommon::*;

mod c13;
mod c17;
mod c19;

pub type GA<T, N> = GenericArray<T, N>;

fn main() {
    let mut ctx = Ctx::from_args();
    match ctx.mode.as_str() {
        "C13" => c13::run(&mut ctx),
        "C17" => c17::run(&mut ctx),
        "C05" => c17::run_c05(&mut ctx),
        "C19" => c19::run(&mut ctx),
        m => {
            eprintln!("unknown mode {m}");
            std::process::exit(2)
        }
    }
    ctx.finish(json!({}));
}
#[allow(unused)]
fn _u<N: ArrayLength>(_: U0) {}
