//! C19 — zeroize() and the constant default reach every one of the N elements.

use super::*;
use const_default::ConstDefault;
use zeroize::Zeroize;

/// element whose zeroized value and default value are distinguishable per field
#[derive(Clone, Debug, PartialEq)]
pub struct Probe {
    a: u8,
    b: u32,
}
impl Zeroize for Probe {
    fn zeroize(&mut self) {
        self.a = 0;
        self.b = 0;
    }
}
impl ConstDefault for Probe {
    const DEFAULT: Self = Probe { a: 1, b: 0xDEAD_BEEF };
}
impl Default for Probe {
    fn default() -> Self {
        Probe { a: 1, b: 0xDEAD_BEEF }
    }
}

/// element whose zeroized value is NOT the all-zero bit pattern
#[derive(Clone, Debug, PartialEq)]
pub struct Wipe7(u16);
impl Zeroize for Wipe7 {
    fn zeroize(&mut self) {
        self.0 = 7;
    }
}

pub trait Sample: Sized + Clone + PartialEq + core::fmt::Debug {
    /// prior content #mode at index i
    fn prior(mode: u8, i: usize) -> Self;
    fn zeroed() -> Self;
    /// the zeroized value of an element that held `prior` (differs from `zeroed()` only for types that keep part of their state)
    fn zeroed_from(_prior: &Self) -> Self {
        Self::zeroed()
    }
}

/// one-byte element whose zeroized value is NOT 0x00
#[derive(Clone, Debug, PartialEq)]
pub struct Wipe1(u8);
impl Zeroize for Wipe1 {
    fn zeroize(&mut self) {
        self.0 = 0x5A;
    }
}
impl Sample for Wipe1 {
    fn prior(mode: u8, i: usize) -> Self {
        match mode { 0 => Wipe1(0xFF), 1 => Wipe1(i as u8 | 1), _ => Wipe1(0) }
    }
    fn zeroed() -> Self { Wipe1(0x5A) }
}
impl Sample for Option<bool> {
    fn prior(mode: u8, i: usize) -> Self {
        match mode { 0 => Some(true), 1 => if i % 2 == 0 { Some(false) } else { Some(true) }, _ => None }
    }
    fn zeroed() -> Self { None }
}
impl Sample for core::num::NonZeroU8 {
    fn prior(mode: u8, i: usize) -> Self {
        core::num::NonZeroU8::new(match mode { 0 => 0xFF, 1 => (i as u8) | 2, _ => 1 }).unwrap()
    }
    fn zeroed() -> Self { core::num::NonZeroU8::new(1).unwrap() }
}
/// element that keeps part of its state across zeroize (like a `#[zeroize(skip)]` field): its zeroized value depends on
/// what it held before, so one element's zeroized value must never be copied into another
#[derive(Clone, Debug, PartialEq)]
pub struct Keep {
    secret: u32,
    tag: u8,
}
impl Zeroize for Keep {
    fn zeroize(&mut self) {
        self.secret = 0;
    }
}
impl Sample for Keep {
    fn prior(mode: u8, i: usize) -> Self {
        match mode { 0 => Keep { secret: u32::MAX, tag: (i % 251) as u8 }, 1 => Keep { secret: i as u32 + 1, tag: (i * 7 % 256) as u8 }, _ => Keep { secret: 0, tag: (i % 3) as u8 } }
    }
    fn zeroed() -> Self { Keep { secret: 0, tag: 0 } }
    fn zeroed_from(p: &Self) -> Self { Keep { secret: 0, tag: p.tag } }
}
impl Sample for u8 {
    fn prior(mode: u8, i: usize) -> Self {
        match mode { 0 => 0xFF, 1 => (i as u8).wrapping_mul(37).wrapping_add(1), _ => 0 }
    }
    fn zeroed() -> Self { 0 }
}
impl Sample for u64 {
    fn prior(mode: u8, i: usize) -> Self {
        match mode { 0 => u64::MAX, 1 => (i as u64 + 1).wrapping_mul(0x0101_0101_0101_0101), _ => 0 }
    }
    fn zeroed() -> Self { 0 }
}
impl Sample for [u8; 3] {
    fn prior(mode: u8, i: usize) -> Self {
        match mode { 0 => [0xFF; 3], 1 => [i as u8 | 1, (i >> 8) as u8 | 2, 3], _ => [0; 3] }
    }
    fn zeroed() -> Self { [0; 3] }
}
impl Sample for GA<u8, U3> {
    fn prior(mode: u8, i: usize) -> Self { GA::from(<[u8; 3]>::prior(mode, i)) }
    fn zeroed() -> Self { GA::from([0u8; 3]) }
}
impl Sample for GA<Keep, U2> {
    fn prior(mode: u8, i: usize) -> Self { GA::from([Keep::prior(mode, 2 * i), Keep::prior(mode, 2 * i + 1)]) }
    fn zeroed() -> Self { GA::from([Keep::zeroed(), Keep::zeroed()]) }
    fn zeroed_from(p: &Self) -> Self { GA::from([Keep::zeroed_from(&p[0]), Keep::zeroed_from(&p[1])]) }
}
impl Sample for Probe {
    fn prior(mode: u8, i: usize) -> Self {
        match mode { 0 => Probe { a: 0xFF, b: u32::MAX }, 1 => Probe { a: i as u8 | 1, b: i as u32 + 1 }, _ => Probe { a: 0, b: 0 } }
    }
    fn zeroed() -> Self { Probe { a: 0, b: 0 } }
}
impl Sample for Wipe7 {
    fn prior(mode: u8, i: usize) -> Self {
        match mode { 0 => Wipe7(0xFFFF), 1 => Wipe7(i as u16 + 100), _ => Wipe7(0) }
    }
    fn zeroed() -> Self { Wipe7(7) }
}

thread_local! { static ZCALLS: std::cell::Cell<u64> = const { std::cell::Cell::new(0) }; }
fn zcalls() -> u64 {
    ZCALLS.with(|c| c.get())
}
/// zero-sized element whose `zeroize` is observable only through its call count ("no slot is skipped or counted twice")
#[derive(Clone, Debug, PartialEq)]
pub struct Zc;
impl Zeroize for Zc {
    fn zeroize(&mut self) {
        ZCALLS.with(|c| c.set(c.get() + 1));
    }
}
/// non-zero-sized element that counts its `zeroize` calls and records that it was wiped
#[derive(Clone, Debug, PartialEq)]
pub struct Cn(u8);
impl Zeroize for Cn {
    fn zeroize(&mut self) {
        ZCALLS.with(|c| c.set(c.get() + 1));
        self.0 = 0;
    }
}

macro_rules! count_case {
    ($T:ty, $N:ty, $mk:expr, $per:expr) => {{
        let n = <$N>::USIZE;
        let mut a = GA::<$T, $N>::uninit();
        for s in a.iter_mut() {
            s.write($mk);
        }
        let mut a: GA<$T, $N> = unsafe { GA::assume_init(a) };
        let c0 = zcalls();
        Zeroize::zeroize(&mut a);
        let c = zcalls() - c0;
        if c != (n * $per) as u64 {
            Err(format!("zeroize() of {n} elements called the element's zeroize {c} times, expected {}", n * $per))
        } else {
            Ok(CaseInfo::new(n > 0, "zeroize-call-count"))
        }
    }};
}

// NOTE: the checks below are macros instantiated at concrete (T, N), not generic functions: the
// trait bounds under which `GenericArray<T, N>: Zeroize / ConstDefault` hold are an implementation
// detail, and a check must not stop compiling when they are reformulated.
macro_rules! zero_case {
    ($T:ty, $N:ty, $mode:expr) => {{
        let n = <$N>::USIZE;
        let mut a = GA::<$T, $N>::uninit();
        for (i, s) in a.iter_mut().enumerate() {
            s.write(<$T as Sample>::prior($mode, i));
        }
        let mut a: GA<$T, $N> = unsafe { GA::assume_init(a) };
        Zeroize::zeroize(&mut a);
        let mut r: Result<CaseInfo, String> = Ok(CaseInfo::new(n > 0, "zeroized"));
        for (i, e) in a.iter().enumerate() {
            let want = <$T as Sample>::zeroed_from(&<$T as Sample>::prior($mode, i));
            if *e != want {
                r = Err(format!("after zeroize() element {i} of {n} is {e:?}, its zeroized value is {want:?}"));
                break;
            }
        }
        r
    }};
}

macro_rules! cd_case {
    ($T:ty, $N:ty, $ct:expr) => {{
        let n = <$N>::USIZE;
        let ct: &GA<$T, $N> = $ct;
        let rt: GA<$T, $N> = GA::<$T, $N>::const_default();
        let rt2: GA<$T, $N> = <GA<$T, $N> as ConstDefault>::DEFAULT;
        let df: GA<$T, $N> = Default::default();
        let mut r: Result<CaseInfo, String> = Ok(CaseInfo::new(n > 0, "const-default"));
        for i in 0..n {
            if rt[i] != <$T as ConstDefault>::DEFAULT || rt2[i] != <$T as ConstDefault>::DEFAULT || ct[i] != <$T as ConstDefault>::DEFAULT {
                r = Err(format!("constant default: element {i} of {n} is {:?} (run time) / {:?} (const item), T::DEFAULT is {:?}", rt[i], ct[i], <$T as ConstDefault>::DEFAULT));
                break;
            }
            if df[i] != rt[i] {
                r = Err(format!("Default::default() and const_default() differ at element {i}"));
                break;
            }
        }
        if rt.len() != n || ct.len() != n {
            r = Err("wrong length".into());
        }
        r
    }};
}

macro_rules! for_ns {
    ([$($n:ty),*], $N:ident => $body:block) => { $( { type $N = $n; if <$N as generic_array::typenum::Unsigned>::USIZE <= vcommon::maxn() { $body } } )* };
}

pub fn run(ctx: &mut Ctx) {
    for_ns!([U0, U1, U2, U3, U4, U5, U6, U7, U8, U9, U10, U11, U12, U13, U14, U15, U16, U17, U18, U19, U20, U21, U22, U23, U24, U25, U26, U27, U28, U29, U30, U31, U32, U33, U34, U35, U36, U37, U38, U39, U40, U41, U42, U43, U44, U45, U46, U47, U48, U49, U50, U51, U52, U53, U54, U55, U56, U57, U58, U59, U60, U61, U62, U63, U64, U65, U100, U127, U128, U255, U256, U257, U1000, U1023, U1024], N => {
        let n = N::USIZE;
        macro_rules! z {
            ($T:ty, $name:literal) => {
                for mode in 0u8..3 {
                    ctx.case(&format!("C19;zeroize;N={n};T={};prior={}", $name, ["ff", "indexed", "zero"][mode as usize]), || zero_case!($T, N, mode));
                }
            };
        }
        z!(u8, "u8");
        z!(u64, "u64");
        z!([u8; 3], "[u8;3]");
        z!(GA<u8, U3>, "GA<u8,U3>");
        z!(Probe, "Probe");
        z!(Wipe7, "Wipe7");
        z!(Wipe1, "Wipe1");
        z!(Option<bool>, "Option<bool>");
        z!(core::num::NonZeroU8, "NonZeroU8");
        z!(Keep, "Keep");
        z!(GA<Keep, U2>, "GA<Keep,U2>");
        ctx.case(&format!("C19;zeroize-count;N={n};T=Zc"), || count_case!(Zc, N, Zc, 1));
        ctx.case(&format!("C19;zeroize-count;N={n};T=Cn"), || count_case!(Cn, N, Cn(0xAA), 1));
        ctx.case(&format!("C19;zeroize-count;N={n};T=GA<Zc,U3>"), || count_case!(GA<Zc, U3>, N, GA::from([Zc, Zc, Zc]), 3));
        ctx.case(&format!("C19;zeroize-count;N={n};T=GA<Zc,U0>"), || count_case!(GA<Zc, U0>, N, GA::from([]), 0));
        macro_rules! cd {
            ($T:ty, $name:literal) => {{
                // evaluated by the compiler's const evaluator
                const CT: GA<$T, N> = GA::<$T, N>::const_default();
                static ST: GA<$T, N> = <GA<$T, N> as ConstDefault>::DEFAULT;
                ctx.case(&format!("C19;const-default;N={n};T={}", $name), || {
                    cd_case!($T, N, &CT)?;
                    cd_case!($T, N, &ST)
                });
            }};
        }
        cd!(u8, "u8");
        cd!(u64, "u64");
        cd!(Probe, "Probe");
        cd!(GA<Probe, U3>, "GA<Probe,U3>");
        cd!((u8, Probe), "(u8,Probe)");
    });
}
