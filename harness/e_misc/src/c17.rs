//! C17 — serde: arrays are fixed-size tuples; any other length is rejected.
//!
//! (a) real formats (serde_json text, bincode, serde_json::Value);
//! (b) a scripted Deserializer/SeqAccess whose every answer is chosen by the enumerator:
//!     delivered count x up-front hint x later hints x element error index; and a recording
//!     Serializer for the output side.

use super::*;
use serde::de::{self, DeserializeSeed, Deserializer, SeqAccess, Visitor};
use serde::ser::{self, Impossible, SerializeTuple, Serializer};
use serde::{Deserialize, Serialize};
use std::cell::RefCell;
use std::fmt;

// ------------------------------------------------------------------------------------------ tracked element

/// drop-tracked element that (de)serialises as a u32
#[derive(Debug)]
pub struct El(Tr<0>);
impl El {
    fn id(&self) -> u32 {
        self.0.id()
    }
}
impl Serialize for El {
    fn serialize<S: Serializer>(&self, s: S) -> Result<S::Ok, S::Error> {
        s.serialize_u32(self.id())
    }
}
struct ElVisitor;
impl<'de> Visitor<'de> for ElVisitor {
    type Value = El;
    fn expecting(&self, f: &mut fmt::Formatter) -> fmt::Result {
        f.write_str("a u32")
    }
    fn visit_u32<E: de::Error>(self, v: u32) -> Result<El, E> {
        let e = El(Tr::new());
        PRODUCED.with(|p| p.borrow_mut().push((v, e.0.peek())));
        Ok(e)
    }
    fn visit_u64<E: de::Error>(self, v: u64) -> Result<El, E> {
        self.visit_u32(v as u32)
    }
}
impl<'de> Deserialize<'de> for El {
    fn deserialize<D: Deserializer<'de>>(d: D) -> Result<El, D::Error> {
        d.deserialize_u32(ElVisitor)
    }
}
thread_local! {
    /// (wire value, ledger id) of every element materialised by deserialisation, in order
    static PRODUCED: RefCell<Vec<(u32, u32)>> = const { RefCell::new(Vec::new()) };
}

// ------------------------------------------------------------------------------------------ scripted deserializer

#[derive(Debug, Clone)]
struct ScriptErr(String);
impl fmt::Display for ScriptErr {
    fn fmt(&self, f: &mut fmt::Formatter) -> fmt::Result {
        f.write_str(&self.0)
    }
}
impl std::error::Error for ScriptErr {}
impl de::Error for ScriptErr {
    fn custom<T: fmt::Display>(m: T) -> Self {
        ScriptErr(m.to_string())
    }
}
impl ser::Error for ScriptErr {
    fn custom<T: fmt::Display>(m: T) -> Self {
        ScriptErr(m.to_string())
    }
}

#[derive(Clone, Copy, Debug, PartialEq, Eq)]
enum Up {
    None,
    Exact,
    TooSmall,
    TooLarge,
    /// Some(usize::MAX)
    Max,
    /// announces N whatever is then delivered
    SaysN,
}
const UPS: &[Up] = &[Up::None, Up::Exact, Up::TooSmall, Up::TooLarge, Up::SaysN, Up::Max];

#[derive(Clone, Copy, Debug)]
struct Plan {
    n: usize,
    /// elements actually available
    c: usize,
    up: Up,
    /// later hints: truthful remaining count, or none
    later_truthful: bool,
    /// this element fails to parse
    fail_at: Option<usize>,
    /// what the deserializer answers to `is_human_readable()` (serde's default is true; binary formats say false)
    human: bool,
    /// entry point: `Deserialize::deserialize_in_place` into an existing array instead of `Deserialize::deserialize`
    in_place: bool,
}

struct ScriptDe<'a> {
    plan: Plan,
    stats: &'a RefCell<Stats>,
}
#[derive(Default, Debug)]
struct Stats {
    asked_len: Option<usize>,
    delivered: usize,
    probes_after_end: usize,
    hint_calls: usize,
}

struct ScriptSeq<'a> {
    plan: Plan,
    pos: usize,
    stats: &'a RefCell<Stats>,
}

struct ElemDe {
    value: u32,
    fail: bool,
}
impl<'de> Deserializer<'de> for ElemDe {
    type Error = ScriptErr;
    fn deserialize_any<V: Visitor<'de>>(self, v: V) -> Result<V::Value, ScriptErr> {
        if self.fail {
            return Err(ScriptErr(format!("element {} does not parse", self.value)));
        }
        v.visit_u32(self.value)
    }
    serde::forward_to_deserialize_any! {
        bool i8 i16 i32 i64 i128 u8 u16 u32 u64 u128 f32 f64 char str string bytes byte_buf option unit unit_struct newtype_struct seq tuple
        tuple_struct map struct enum identifier ignored_any
    }
}

impl<'de, 'a> SeqAccess<'de> for ScriptSeq<'a> {
    type Error = ScriptErr;
    fn next_element_seed<S: DeserializeSeed<'de>>(&mut self, seed: S) -> Result<Option<S::Value>, ScriptErr> {
        if self.pos >= self.plan.c {
            if self.pos > self.plan.c {
                self.stats.borrow_mut().probes_after_end += 1;
            }
            self.pos = self.plan.c + 1;
            return Ok(None);
        }
        let k = self.pos;
        self.pos += 1;
        let r = seed.deserialize(ElemDe { value: 1000 + k as u32, fail: self.plan.fail_at == Some(k) })?;
        self.stats.borrow_mut().delivered += 1;
        Ok(Some(r))
    }
    fn size_hint(&self) -> Option<usize> {
        self.stats.borrow_mut().hint_calls += 1;
        let rem = self.plan.c.saturating_sub(self.pos);
        if self.pos == 0 {
            match self.plan.up {
                Up::None => None,
                Up::Exact => Some(self.plan.c),
                Up::TooSmall => Some(self.plan.n.saturating_sub(1)),
                Up::TooLarge => Some(self.plan.n + 1),
                Up::Max => Some(usize::MAX),
                Up::SaysN => Some(self.plan.n),
            }
        } else if self.plan.later_truthful {
            Some(rem)
        } else {
            None
        }
    }
}

impl<'de, 'a> Deserializer<'de> for ScriptDe<'a> {
    type Error = ScriptErr;
    fn deserialize_any<V: Visitor<'de>>(self, v: V) -> Result<V::Value, ScriptErr> {
        v.visit_seq(ScriptSeq { plan: self.plan, pos: 0, stats: self.stats })
    }
    fn deserialize_tuple<V: Visitor<'de>>(self, len: usize, v: V) -> Result<V::Value, ScriptErr> {
        self.stats.borrow_mut().asked_len = Some(len);
        v.visit_seq(ScriptSeq { plan: self.plan, pos: 0, stats: self.stats })
    }
    fn is_human_readable(&self) -> bool {
        self.plan.human
    }
    serde::forward_to_deserialize_any! {
        bool i8 i16 i32 i64 i128 u8 u16 u32 u64 u128 f32 f64 char str string bytes byte_buf option unit unit_struct newtype_struct seq
        tuple_struct map struct enum identifier ignored_any
    }
}

fn scripted<N: ArrayLength>(plan: Plan) -> Result<CaseInfo, String> {
    let n = N::USIZE;
    PRODUCED.with(|p| p.borrow_mut().clear());
    let stats = RefCell::new(Stats::default());
    let r: Result<GA<El, N>, ScriptErr> = if plan.in_place {
        // into an existing array: its old elements are released exactly once whatever the outcome
        let mut place: GA<El, N> = <GA<El, N> as generic_array::sequence::GenericSequence<El>>::generate(|_| El(Tr::new()));
        match Deserialize::deserialize_in_place(ScriptDe { plan, stats: &stats }, &mut place) {
            Ok(()) => Ok(place),
            Err(e) => {
                drop(place);
                Err(e)
            }
        }
    } else {
        GA::<El, N>::deserialize(ScriptDe { plan, stats: &stats })
    };
    let st = stats.borrow();
    if st.asked_len != Some(n) {
        return Err(format!("deserialize asked the format for {:?}, expected a tuple of exactly {n}", st.asked_len));
    }
    let should_ok = plan.c == n && plan.fail_at.map_or(true, |k| k >= n) && matches!(plan.up, Up::None | Up::Exact | Up::SaysN);
    let must_err = plan.c != n || plan.fail_at.map_or(false, |k| k < n.min(plan.c));
    let outcome;
    match r {
        Ok(a) => {
            if must_err {
                let d = format!("Ok from a source offering {} element(s) (N = {n}, up-front hint {:?}, later hints {}, failing element {:?})", plan.c, plan.up, if plan.later_truthful { "truthful" } else { "none" }, plan.fail_at);
                drop(a);
                return Err(d);
            }
            let prod = PRODUCED.with(|p| p.borrow().clone());
            let got: Vec<u32> = a.iter().map(|e| e.id()).collect();
            let want: Vec<u32> = prod.iter().take(n).map(|x| x.1).collect();
            let wire: Vec<u32> = prod.iter().take(n).map(|x| x.0).collect();
            if got != want || wire != (0..n as u32).map(|k| 1000 + k).collect::<Vec<_>>() {
                return Err(format!("element i is not the i-th element read: array ids {got:?}, read order {want:?}, wire {wire:?}"));
            }
            ledger::check_exact(&got, 0).map_err(|e| format!("with the array alive: {e}"))?;
            drop(a);
            outcome = "ok";
        }
        Err(e) => {
            if should_ok {
                return Err(format!("rejected a well-formed source of exactly N = {n} elements: {e}"));
            }
            outcome = if plan.fail_at.is_some() && e.0.contains("does not parse") { "element-error" } else if e.0.contains("invalid length") { "invalid-length" } else { "other-error" };
        }
    }
    ledger::check_exact(&[], 0).map_err(|e| format!("elements already read: {e}"))?;
    // (how often the sequence is asked again after it reported its end is recorded in the statistics only: C17 does not state it)
    Ok(CaseInfo::new(n > 0 || plan.c > 0, outcome))
}

// ------------------------------------------------------------------------------------------ recording serializer

#[derive(Debug, Clone, PartialEq)]
enum Ev {
    Tuple(usize),
    U32(u32),
    End,
    Other(&'static str),
}
struct RecSer<'a>(&'a RefCell<Vec<Ev>>);
struct RecTup<'a>(&'a RefCell<Vec<Ev>>);

macro_rules! other {
    ($($name:ident($($t:ty),*);)*) => { $( fn $name(self $(, _: $t)*) -> Result<(), ScriptErr> { self.0.borrow_mut().push(Ev::Other(stringify!($name))); Ok(()) } )* };
}
impl<'a> Serializer for RecSer<'a> {
    type Ok = ();
    type Error = ScriptErr;
    type SerializeSeq = Impossible<(), ScriptErr>;
    type SerializeTuple = RecTup<'a>;
    type SerializeTupleStruct = Impossible<(), ScriptErr>;
    type SerializeTupleVariant = Impossible<(), ScriptErr>;
    type SerializeMap = Impossible<(), ScriptErr>;
    type SerializeStruct = Impossible<(), ScriptErr>;
    type SerializeStructVariant = Impossible<(), ScriptErr>;
    fn serialize_u32(self, v: u32) -> Result<(), ScriptErr> {
        self.0.borrow_mut().push(Ev::U32(v));
        Ok(())
    }
    other! {
        serialize_bool(bool); serialize_i8(i8); serialize_i16(i16); serialize_i32(i32); serialize_i64(i64); serialize_u8(u8); serialize_u16(u16); serialize_u64(u64);
        serialize_f32(f32); serialize_f64(f64); serialize_char(char); serialize_str(&str); serialize_bytes(&[u8]); serialize_none(); serialize_unit(); serialize_unit_struct(&'static str);
        serialize_unit_variant(&'static str, u32, &'static str);
    }
    fn serialize_some<T: ?Sized + Serialize>(self, _: &T) -> Result<(), ScriptErr> {
        Err(ScriptErr("unexpected some".into()))
    }
    fn serialize_newtype_struct<T: ?Sized + Serialize>(self, _: &'static str, _: &T) -> Result<(), ScriptErr> {
        Err(ScriptErr("unexpected newtype".into()))
    }
    fn serialize_newtype_variant<T: ?Sized + Serialize>(self, _: &'static str, _: u32, _: &'static str, _: &T) -> Result<(), ScriptErr> {
        Err(ScriptErr("unexpected newtype variant".into()))
    }
    fn serialize_seq(self, _: Option<usize>) -> Result<Self::SerializeSeq, ScriptErr> {
        self.0.borrow_mut().push(Ev::Other("serialize_seq"));
        Err(ScriptErr("array serialised as a variable-length sequence".into()))
    }
    fn serialize_tuple(self, len: usize) -> Result<RecTup<'a>, ScriptErr> {
        self.0.borrow_mut().push(Ev::Tuple(len));
        Ok(RecTup(self.0))
    }
    fn serialize_tuple_struct(self, _: &'static str, _: usize) -> Result<Self::SerializeTupleStruct, ScriptErr> {
        Err(ScriptErr("unexpected tuple struct".into()))
    }
    fn serialize_tuple_variant(self, _: &'static str, _: u32, _: &'static str, _: usize) -> Result<Self::SerializeTupleVariant, ScriptErr> {
        Err(ScriptErr("unexpected".into()))
    }
    fn serialize_map(self, _: Option<usize>) -> Result<Self::SerializeMap, ScriptErr> {
        Err(ScriptErr("unexpected map".into()))
    }
    fn serialize_struct(self, _: &'static str, _: usize) -> Result<Self::SerializeStruct, ScriptErr> {
        Err(ScriptErr("unexpected struct".into()))
    }
    fn serialize_struct_variant(self, _: &'static str, _: u32, _: &'static str, _: usize) -> Result<Self::SerializeStructVariant, ScriptErr> {
        Err(ScriptErr("unexpected".into()))
    }
}
impl<'a> SerializeTuple for RecTup<'a> {
    type Ok = ();
    type Error = ScriptErr;
    fn serialize_element<T: ?Sized + Serialize>(&mut self, v: &T) -> Result<(), ScriptErr> {
        v.serialize(RecSer(self.0))
    }
    fn end(self) -> Result<(), ScriptErr> {
        self.0.borrow_mut().push(Ev::End);
        Ok(())
    }
}

fn ser_shape<N: ArrayLength>() -> Result<CaseInfo, String> {
    let n = N::USIZE;
    let mut a = GA::<u32, N>::default();
    for (i, e) in a.iter_mut().enumerate() {
        *e = 7000 + i as u32;
    }
    let log = RefCell::new(Vec::new());
    a.serialize(RecSer(&log)).map_err(|e| format!("serialisation failed: {e}"))?;
    let mut want = vec![Ev::Tuple(n)];
    want.extend((0..n as u32).map(|i| Ev::U32(7000 + i)));
    want.push(Ev::End);
    if *log.borrow() != want {
        let l = log.borrow();
        return Err(format!("serialiser saw {:?}..., expected serialize_tuple({n}), {n} elements in index order, end", &l[..l.len().min(6)]));
    }
    Ok(CaseInfo::new(n > 0, "tuple-shape"))
}

// ------------------------------------------------------------------------------------------ real formats

fn formats<N: ArrayLength>() -> Result<CaseInfo, String> {
    let n = N::USIZE;
    // u8 / u32 / String through JSON text, bincode, serde_json::Value
    let mut a8 = GA::<u8, N>::default();
    let mut a32 = GA::<u32, N>::default();
    let mut astr = GA::<String, N>::default();
    for i in 0..n {
        a8[i] = (i * 7 + 1) as u8;
        a32[i] = 0x0101_0000 + i as u32;
        astr[i] = format!("s{i}");
    }
    // JSON: exactly the N-element list
    let j = serde_json::to_string(&a32).map_err(|e| e.to_string())?;
    let wantj = serde_json::to_string(&a32.as_slice().to_vec()).unwrap();
    if j != wantj {
        return Err(format!("JSON text is {j}, the N-element list is {wantj}"));
    }
    let back: GA<u32, N> = serde_json::from_str(&j).map_err(|e| format!("JSON round trip failed: {e}"))?;
    if back != a32 {
        return Err("JSON round trip changed the array".into());
    }
    let js = serde_json::to_string(&astr).unwrap();
    let backs: GA<String, N> = serde_json::from_str(&js).map_err(|e| format!("JSON round trip (String) failed: {e}"))?;
    if backs != astr {
        return Err("JSON round trip changed the String array".into());
    }
    // bincode: concatenated element encodings, no length prefix
    let b = bincode::serialize(&a32).map_err(|e| e.to_string())?;
    let mut wantb = Vec::new();
    for x in a32.iter() {
        wantb.extend(bincode::serialize(x).unwrap());
    }
    if b != wantb {
        return Err(format!("bincode output has {} bytes, the bare concatenation of the elements has {}", b.len(), wantb.len()));
    }
    let backb: GA<u32, N> = bincode::deserialize(&b).map_err(|e| format!("bincode round trip failed: {e}"))?;
    if backb != a32 {
        return Err("bincode round trip changed the array".into());
    }
    let b8 = bincode::serialize(&a8).unwrap();
    if b8 != a8.as_slice() {
        return Err("bincode of a byte array is not exactly its bytes".into());
    }
    let bs = bincode::serialize(&astr).unwrap();
    let backbs: GA<String, N> = bincode::deserialize(&bs).map_err(|e| format!("bincode round trip (String) failed: {e}"))?;
    if backbs != astr {
        return Err("bincode round trip changed the String array".into());
    }
    // serde_json::Value: an N-array
    let v = serde_json::to_value(&a32).unwrap();
    match &v {
        serde_json::Value::Array(xs) if xs.len() == n => {}
        other => return Err(format!("serde_json::Value is {other:?}, expected an array of {n}")),
    }
    let backv: GA<u32, N> = serde_json::from_value(v).map_err(|e| format!("Value round trip failed: {e}"))?;
    if backv != a32 {
        return Err("Value round trip changed the array".into());
    }
    // every other element count is rejected
    for c in 0..=n + 2 {
        let list: Vec<u32> = (0..c as u32).collect();
        let txt = serde_json::to_string(&list).unwrap();
        let r: Result<GA<u32, N>, _> = serde_json::from_str(&txt);
        if r.is_ok() != (c == n) {
            return Err(format!("JSON list of {c} elements: {} (N = {n})", if r.is_ok() { "accepted" } else { "rejected" }));
        }
        let r: Result<GA<u32, N>, _> = serde_json::from_value(serde_json::to_value(&list).unwrap());
        if r.is_ok() != (c == n) {
            return Err(format!("serde_json::Value array of {c} elements: {} (N = {n})", if r.is_ok() { "accepted" } else { "rejected" }));
        }
        // tracked elements through JSON: already-read elements dropped once on rejection
        elems::reset_all();
        let r: Result<GA<El, N>, _> = serde_json::from_str(&txt);
        if r.is_ok() != (c == n) {
            return Err(format!("JSON list of {c} tracked elements: wrong verdict (N = {n})"));
        }
        drop(r);
        ledger::check_exact(&[], 0).map_err(|e| format!("JSON list of {c} tracked elements (N = {n}): {e}"))?;
        // an element that fails to parse at every index
        for k in 0..c.min(n) {
            let mut items: Vec<String> = (0..c).map(|i| i.to_string()).collect();
            items[k] = "\"x\"".into();
            let txt = format!("[{}]", items.join(","));
            elems::reset_all();
            let r: Result<GA<El, N>, _> = serde_json::from_str(&txt);
            if r.is_ok() {
                return Err(format!("JSON list with an unparsable element at {k} was accepted"));
            }
            drop(r);
            ledger::check_exact(&[], 0).map_err(|e| format!("JSON list of {c} with a bad element at {k} (N = {n}): {e}"))?;
        }
    }
    // bincode input truncated at every byte position: rejected, elements already read dropped once
    for cut in 0..b.len() {
        let r: Result<GA<u32, N>, _> = bincode::deserialize(&b[..cut]);
        if r.is_ok() {
            return Err(format!("bincode input truncated to {cut} of {} bytes was accepted", b.len()));
        }
        elems::reset_all();
        let r: Result<GA<El, N>, _> = bincode::deserialize(&b[..cut]);
        if r.is_ok() {
            return Err(format!("bincode input (tracked elements) truncated to {cut} of {} bytes was accepted", b.len()));
        }
        drop(r);
        ledger::check_exact(&[], 0).map_err(|e| format!("bincode input truncated to {cut} bytes: {e}"))?;
    }
    // tracked elements through bincode and back
    elems::reset_all();
    let back_el: GA<El, N> = bincode::deserialize(&b).map_err(|e| format!("bincode round trip (tracked) failed: {e}"))?;
    let reser = bincode::serialize(&back_el).map_err(|e| e.to_string())?;
    if reser.len() != b.len() {
        return Err("re-serialised tracked array has a different size".into());
    }
    drop(back_el);
    ledger::check_exact(&[], 0).map_err(|e| format!("bincode round trip (tracked): {e}"))?;
    Ok(CaseInfo::new(n > 0, "formats"))
}

macro_rules! for_ns {
    ([$($n:ty),*], $N:ident => $body:block) => { $( { type $N = $n; if <$N as generic_array::typenum::Unsigned>::USIZE <= vcommon::maxn() { $body } } )* };
}

/// C05 on the deserialisation error paths: `c` elements are offered, element `fail_at` fails to parse (or the
/// count is wrong), and the destructor of already-read element `e` panics once while the partly built array
/// is torn down.  Oracle of C05: nothing dropped twice, nothing observed after its drop (leaks allowed).
fn teardown_fault<N: ArrayLength>(plan: Plan, e: Option<u32>) -> Result<(CaseInfo, u32), String> {
    PRODUCED.with(|p| p.borrow_mut().clear());
    let stats = RefCell::new(Stats::default());
    ledger::set_drop_bomb(e);
    let r = catch(std::panic::AssertUnwindSafe(|| GA::<El, N>::deserialize(ScriptDe { plan, stats: &stats })));
    let fired_inside = ledger::fired() > 0;
    let made = ledger::created();
    match r {
        Ok(Ok(a)) => {
            // accepted input: the array is observed, then dropped (the destructor may panic now)
            let _ = a.iter().map(|x| x.id()).collect::<Vec<_>>();
            let _ = catch(std::panic::AssertUnwindSafe(|| drop(a)));
        }
        Ok(Err(_)) => {}
        Err(PanicKind::Injected(_)) => {}
        Err(PanicKind::Other(m)) => return Err(format!("unexpected panic: {m}")),
    }
    ledger::set_drop_bomb(None);
    let leaked = ledger::check_no_double(&[])?;
    Ok((CaseInfo::new(fired_inside, format!("{}:{}", if fired_inside { "panicked-inside-deserialize" } else { "no-panic-inside" }, if leaked > 0 { "leaks" } else { "no-leak" })), made))
}

pub fn run_c05(ctx: &mut Ctx) {
    for_ns!([U0, U1, U2, U3, U4, U5, U6, U8, U16], N => {
        let n = N::USIZE;
        for c in 0..=n + 2 {
            for &up in &[Up::None, Up::SaysN] {
                let mut fails: Vec<Option<usize>> = vec![None];
                fails.extend((0..c.min(n)).map(Some));
                for fail_at in fails {
                    let plan = Plan { n, c, up, later_truthful: false, fail_at, human: true, in_place: false };
                    if n == 0 && c > 0 && matches!(up, Up::SaysN) {
                        continue;
                    }
                    let d = format!("C05;serde-teardown;N={n};c={c};up={up:?};fail={}", fail_at.map_or("-".to_string(), |k| k.to_string()));
                    // the fault-free run tells how many elements get created: each is a candidate
                    elems::reset_all();
                    let made = if !ctx.prerun(&d, &format!("{d};e=-")) {
                        0
                    } else {
                        match catch(|| teardown_fault::<N>(plan, None)) {
                            Ok(Ok((_, m))) => m,
                            _ => 0,
                        }
                    };
                    ctx.case(&format!("{d};e=-"), || teardown_fault::<N>(plan, None).map(|x| x.0));
                    for e in 0..made {
                        ctx.case(&format!("{d};e={e}"), || teardown_fault::<N>(plan, Some(e)).map(|x| x.0));
                    }
                }
            }
        }
    });
}

pub fn run(ctx: &mut Ctx) {
    for_ns!([U0, U1, U2, U3, U4, U5, U6, U7, U8, U16, U33, U100], N => {
        let n = N::USIZE;
        ctx.case(&format!("C17;formats;N={n}"), || formats::<N>());
        ctx.case(&format!("C17;serializer-shape;N={n}"), || ser_shape::<N>());
        let cs: Vec<usize> = if n <= 33 { (0..=n + 2).collect() } else { vec![0, 1, n / 2, n - 1, n, n + 1, n + 2] };
        for c in cs {
            for &up in UPS {
                for later_truthful in [true, false] {
                    let mut fails: Vec<Option<usize>> = vec![None];
                    if n <= 33 {
                        fails.extend((0..c).map(Some));
                    } else {
                        fails.extend([0, 1, c / 2, c.saturating_sub(2), c.saturating_sub(1)].into_iter().filter(|&k| k < c).map(Some));
                        fails.sort();
                        fails.dedup();
                    }
                    for (fail_at, (human, in_place)) in fails.iter().flat_map(|f| [(true, false), (false, false), (true, true), (false, true)].into_iter().map(move |m| (*f, m))) {
                        let plan = Plan { n, c, up, later_truthful, fail_at, human, in_place };
                        // outside the claim (documented exclusion): a source that reports 'nothing left' (Some(0)) while
                        // still holding elements - only reachable here for N = 0 with an up-front hint of 0
                        if n == 0 && c > 0 && matches!(up, Up::SaysN | Up::TooSmall) {
                            continue;
                        }
                        let d = format!("C17;scripted;N={n};c={c};up={up:?};later={};fail={};{}{}", if later_truthful { "truthful" } else { "none" }, fail_at.map_or("-".to_string(), |k| k.to_string()),
                            if human { "human" } else { "binary" }, if in_place { ";in-place" } else { "" });
                        ctx.case(&d, || scripted::<N>(plan));
                    }
                }
            }
        }
    });
}
