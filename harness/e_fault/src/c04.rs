//! C04 scenarios.  Every scenario is `fn(Option<u64>) -> Result<u64, String>`: run the operation
//! with the k-th fault point panicking (None = fault-free) and return the number of fault points
//! the run passed through.

use super::*;
use std::cell::Cell;

/// Judge one run.  `after(Some(v))`: fault-free result; `after(None)`: after a propagated fault.
/// `after` verifies and then drops everything that survived; afterwards *nothing* may be live.
fn judge<R>(k: Option<u64>, r: Result<R, PanicKind>, plain_panic_ok: Option<&str>, after: impl FnOnce(Option<R>) -> Result<(), String>) -> Result<(), String> {
    match (k, r) {
        (None, Ok(v)) => {
            if plain_panic_ok.is_some() {
                return Err("expected the documented length panic, but the operation returned".into());
            }
            after(Some(v))?
        }
        (None, Err(PanicKind::Other(m))) => match plain_panic_ok {
            Some(frag) if m.contains(frag) => after(None)?,
            _ => return Err(format!("fault-free run panicked: {m}")),
        },
        (None, Err(PanicKind::Injected(t))) => return Err(format!("harness: fault '{t}' fired without a plan")),
        (Some(_), Err(PanicKind::Injected(_))) => after(None)?,
        (Some(_), Ok(v)) => {
            let fired = ledger::fired();
            core::mem::forget(v);
            return Err(if fired == 0 {
                "harness: the planned fault never fired".to_string()
            } else {
                "the panic in caller code was swallowed: the operation returned normally".to_string()
            });
        }
        (Some(_), Err(PanicKind::Other(m))) => {
            // a fault at the excess-item probe of a wrong-length collect is still an injected fault;
            // any other payload means the injected panic did not propagate as such
            return Err(format!("the injected panic did not propagate; got a different panic: {m}"));
        }
    }
    ledger::check_exact(&[], 0)
}

fn intact<E: Elem>(what: &str, now: &[E], before: &[u32]) -> Result<(), String> {
    let ids = ids_of(now);
    if ids != before {
        return Err(format!("borrowed source {what} changed: {ids:?}, was {before:?}"));
    }
    let (live, z) = E::live_of(&ids);
    // a borrowed source must still be fully live
    ledger::with(|l| {
        for &i in &live {
            if l.drops[i as usize] != 0 {
                return Err(format!("element {i} of borrowed source {what} was dropped"));
            }
        }
        let _ = z;
        Ok(())
    })
}

// ---------------------------------------------------------------- generate / default

macro_rules! gen_body {
    ($k:ident, $U:ty, $N:ty, $call:expr) => {{
        ledger::set_call_bomb($k);
        let r = catch(|| $call);
        ledger::set_call_bomb(None);
        let calls = ledger::calls();
        judge($k, r, None, |v| {
            if let Some(v) = v {
                if v.len() != <$N>::USIZE {
                    return Err(format!("result has {} elements", v.len()));
                }
                drop(v);
            }
            Ok(())
        })?;
        Ok(calls)
    }};
}

fn genf<U: Elem>() -> impl FnMut(usize) -> U {
    |_i| {
        let o = U::make();
        ledger::tick("generate");
        o
    }
}

pub fn gen_owned<N: ArrayLength, U: Elem>(k: Option<u64>) -> Result<u64, String> {
    gen_body!(k, U, N, GA::<U, N>::generate(genf::<U>()))
}
pub fn gen_ref<N: ArrayLength, U: Elem>(k: Option<u64>) -> Result<u64, String> {
    gen_body!(k, U, N, <&GA<U, N> as GenericSequence<U>>::generate(genf::<U>()))
}
pub fn gen_mut<N: ArrayLength, U: Elem>(k: Option<u64>) -> Result<u64, String> {
    gen_body!(k, U, N, <&mut GA<U, N> as GenericSequence<U>>::generate(genf::<U>()))
}
pub fn gen_box<N: ArrayLength, U: Elem>(k: Option<u64>) -> Result<u64, String> {
    gen_body!(k, U, N, <Box<GA<U, N>> as GenericSequence<U>>::generate(genf::<U>()))
}
pub fn default_owned<N: ArrayLength, U: Elem + Default>(k: Option<u64>) -> Result<u64, String> {
    gen_body!(k, U, N, GA::<U, N>::default())
}
pub fn default_boxed<N: ArrayLength, U: Elem + Default>(k: Option<u64>) -> Result<u64, String> {
    gen_body!(k, U, N, GA::<U, N>::default_boxed())
}

// ---------------------------------------------------------------- map

fn mapf<X, U: Elem>() -> impl FnMut(X) -> U {
    |x| {
        let o = U::make();
        ledger::tick("map");
        drop(x);
        o
    }
}

pub fn map_owned<N: ArrayLength, A: Elem, U: Elem>(k: Option<u64>) -> Result<u64, String> {
    let src = mk::<A, N>();
    ledger::set_call_bomb(k);
    let r = catch(move || src.map(mapf::<A, U>()));
    ledger::set_call_bomb(None);
    let calls = ledger::calls();
    judge(k, r, None, |v| {
        drop(v);
        Ok(())
    })?;
    Ok(calls)
}
pub fn map_ref<N: ArrayLength, A: Elem, U: Elem>(k: Option<u64>) -> Result<u64, String> {
    let src = mk::<A, N>();
    let before = ids_of(&src);
    ledger::set_call_bomb(k);
    let r = catch(|| (&src).map(mapf::<&A, U>()));
    ledger::set_call_bomb(None);
    let calls = ledger::calls();
    judge(k, r, None, |v| {
        intact("&self", &src, &before)?;
        drop(v);
        drop(src);
        Ok(())
    })?;
    Ok(calls)
}
pub fn map_mut<N: ArrayLength, A: Elem, U: Elem>(k: Option<u64>) -> Result<u64, String> {
    let mut src = mk::<A, N>();
    let before = ids_of(&src);
    ledger::set_call_bomb(k);
    let r = catch(AssertUnwindSafe(|| (&mut src).map(mapf::<&mut A, U>())));
    ledger::set_call_bomb(None);
    let calls = ledger::calls();
    judge(k, r, None, |v| {
        intact("&mut self", &src, &before)?;
        drop(v);
        drop(src);
        Ok(())
    })?;
    Ok(calls)
}
pub fn map_box<N: ArrayLength, A: Elem, U: Elem>(k: Option<u64>) -> Result<u64, String> {
    let src = Box::new(mk::<A, N>());
    ledger::set_call_bomb(k);
    let r = catch(move || src.map(mapf::<A, U>()));
    ledger::set_call_bomb(None);
    let calls = ledger::calls();
    judge(k, r, None, |v| {
        drop(v);
        Ok(())
    })?;
    Ok(calls)
}

// ---------------------------------------------------------------- fold

fn foldf<X>() -> impl FnMut(u64, X) -> u64 {
    |acc, x| {
        ledger::tick("fold");
        drop(x);
        acc + 1
    }
}

pub fn fold_owned<N: ArrayLength, A: Elem>(k: Option<u64>) -> Result<u64, String> {
    let src = mk::<A, N>();
    ledger::set_call_bomb(k);
    let r = catch(move || src.fold(0u64, foldf::<A>()));
    ledger::set_call_bomb(None);
    let calls = ledger::calls();
    judge(k, r, None, |v| match v {
        Some(c) if c != N::U64 => Err(format!("fold made {c} calls")),
        _ => Ok(()),
    })?;
    Ok(calls)
}
pub fn fold_ref<N: ArrayLength, A: Elem>(k: Option<u64>) -> Result<u64, String> {
    let src = mk::<A, N>();
    let before = ids_of(&src);
    ledger::set_call_bomb(k);
    let r = catch(|| (&src).fold(0u64, foldf::<&A>()));
    ledger::set_call_bomb(None);
    let calls = ledger::calls();
    judge(k, r, None, |_| {
        intact("&self", &src, &before)?;
        drop(src);
        Ok(())
    })?;
    Ok(calls)
}
pub fn fold_mut<N: ArrayLength, A: Elem>(k: Option<u64>) -> Result<u64, String> {
    let mut src = mk::<A, N>();
    let before = ids_of(&src);
    ledger::set_call_bomb(k);
    let r = catch(AssertUnwindSafe(|| (&mut src).fold(0u64, foldf::<&mut A>())));
    ledger::set_call_bomb(None);
    let calls = ledger::calls();
    judge(k, r, None, |_| {
        intact("&mut self", &src, &before)?;
        drop(src);
        Ok(())
    })?;
    Ok(calls)
}
pub fn fold_box<N: ArrayLength, A: Elem>(k: Option<u64>) -> Result<u64, String> {
    let src = Box::new(mk::<A, N>());
    ledger::set_call_bomb(k);
    let r = catch(move || src.fold(0u64, foldf::<A>()));
    ledger::set_call_bomb(None);
    let calls = ledger::calls();
    judge(k, r, None, |_| Ok(()))?;
    Ok(calls)
}

// ---------------------------------------------------------------- zip (9 stack forms + boxed)

fn zipf<X, Y, U: Elem>() -> impl FnMut(X, Y) -> U {
    |x, y| {
        let o = U::make();
        ledger::tick("zip");
        drop(x);
        drop(y);
        o
    }
}

macro_rules! form {
    (owned, $v:ident) => { $v };
    (shared, $v:ident) => { &$v };
    (mutable, $v:ident) => { &mut $v };
}
macro_rules! arg_ty {
    (owned, $t:ty) => { $t };
    (shared, $t:ty) => { &$t };
    (mutable, $t:ty) => { &mut $t };
}
macro_rules! survivor {
    (owned, $v:ident, $before:ident, $what:literal) => {};
    (shared, $v:ident, $before:ident, $what:literal) => {
        intact($what, &$v, &$before)?;
        drop($v);
    };
    (mutable, $v:ident, $before:ident, $what:literal) => {
        intact($what, &$v, &$before)?;
        drop($v);
    };
}
macro_rules! zip_scen {
    ($name:ident, $l:tt, $r:tt) => {
        #[allow(unused_mut, unused_variables)]
        pub fn $name<N: ArrayLength, A: Elem, B: Elem, U: Elem>(k: Option<u64>) -> Result<u64, String> {
            let mut a = mk::<A, N>();
            let mut b = mk::<B, N>();
            let ida = ids_of(&a);
            let idb = ids_of(&b);
            ledger::set_call_bomb(k);
            let r = catch(AssertUnwindSafe(|| form!($l, a).zip(form!($r, b), zipf::<arg_ty!($l, A), arg_ty!($r, B), U>())));
            ledger::set_call_bomb(None);
            let calls = ledger::calls();
            judge(k, r, None, |v| {
                if let Some(v) = &v {
                    if v.len() != N::USIZE {
                        return Err(format!("zip result has {} elements", v.len()));
                    }
                }
                survivor!($l, a, ida, "left operand");
                survivor!($r, b, idb, "right operand");
                drop(v);
                Ok(())
            })?;
            Ok(calls)
        }
    };
}
zip_scen!(zip_oo, owned, owned);
zip_scen!(zip_os, owned, shared);
zip_scen!(zip_om, owned, mutable);
zip_scen!(zip_so, shared, owned);
zip_scen!(zip_ss, shared, shared);
zip_scen!(zip_sm, shared, mutable);
zip_scen!(zip_mo, mutable, owned);
zip_scen!(zip_ms, mutable, shared);
zip_scen!(zip_mm, mutable, mutable);

pub fn zip_bb<N: ArrayLength, A: Elem, B: Elem, U: Elem>(k: Option<u64>) -> Result<u64, String> {
    let a = Box::new(mk::<A, N>());
    let b = Box::new(mk::<B, N>());
    ledger::set_call_bomb(k);
    let r = catch(move || a.zip(b, zipf::<A, B, U>()));
    ledger::set_call_bomb(None);
    let calls = ledger::calls();
    judge(k, r, None, |v| {
        drop(v);
        Ok(())
    })?;
    Ok(calls)
}

// ---------------------------------------------------------------- Clone

pub fn clone_arr<N: ArrayLength, A: Elem>(k: Option<u64>) -> Result<u64, String> {
    let src = mk::<A, N>();
    let before = ids_of(&src);
    ledger::set_clone_bomb(k);
    let r = catch(|| src.clone());
    ledger::set_clone_bomb(None);
    let n = ledger::clone_calls();
    judge(k, r, None, |v| {
        intact("the cloned array", &src, &before)?;
        if let Some(v) = &v {
            for (j, (c, o)) in v.iter().zip(src.iter()).enumerate() {
                if !c.is_clone_of(o) {
                    return Err(format!("clone element {j} is not a clone of source element {j}"));
                }
            }
        }
        drop(v);
        drop(src);
        Ok(())
    })?;
    Ok(n)
}
/// `dst.clone_from(&src)` with the k-th `T::clone` panicking: source intact, every element of the destination - old ones,
/// new ones, whatever mixture it holds after the unwinding - dropped exactly once
pub fn clone_from_arr<N: ArrayLength, A: Elem>(boxed: bool, k: Option<u64>) -> Result<u64, String> {
    let src = mk::<A, N>();
    let before = ids_of(&src);
    let c0 = ledger::clone_calls();
    let n;
    if boxed {
        let src = Box::new(src);
        let mut dst = Box::new(mk::<A, N>());
        ledger::set_clone_bomb(k.map(|k| k + c0));
        let r = catch(AssertUnwindSafe(|| dst.clone_from(&src)));
        ledger::set_clone_bomb(None);
        n = ledger::clone_calls() - c0;
        judge(k, r, None, |_| {
            intact("the source of clone_from", &src[..], &before)?;
            drop(dst);
            drop(src);
            Ok(())
        })?;
    } else {
        let mut dst = mk::<A, N>();
        ledger::set_clone_bomb(k.map(|k| k + c0));
        let r = catch(AssertUnwindSafe(|| dst.clone_from(&src)));
        ledger::set_clone_bomb(None);
        n = ledger::clone_calls() - c0;
        judge(k, r, None, |_| {
            intact("the source of clone_from", &src, &before)?;
            drop(dst);
            drop(src);
            Ok(())
        })?;
    }
    Ok(n)
}
/// `dst.clone_from(&it)` on by-value iterators, destination part-consumed (front 1, back 1 where possible)
pub fn clone_from_iter<N: ArrayLength, A: Elem>(pre: bool, f: usize, b: usize, k: Option<u64>) -> Result<u64, String> {
    let it = iter_at::<A, N>(pre, f, b);
    let before = ids_of(it.as_slice());
    let mut dst = iter_at::<A, N>(false, N::USIZE.min(1), N::USIZE.saturating_sub(1).min(1));
    let c0 = ledger::clone_calls();
    ledger::set_clone_bomb(k.map(|k| k + c0));
    let r = catch(AssertUnwindSafe(|| dst.clone_from(&it)));
    ledger::set_clone_bomb(None);
    let n = ledger::clone_calls() - c0;
    judge(k, r, None, |v| {
        intact("the source iterator of clone_from", it.as_slice(), &before)?;
        if v.is_some() && dst.len() != before.len() {
            return Err(format!("after clone_from the destination has {} elements, the source {}", dst.len(), before.len()));
        }
        drop(dst);
        drop(it);
        Ok(())
    })?;
    Ok(n)
}
pub fn clone_box<N: ArrayLength, A: Elem>(k: Option<u64>) -> Result<u64, String> {
    let src = Box::new(mk::<A, N>());
    let before = ids_of(&src);
    ledger::set_clone_bomb(k);
    let r = catch(|| src.clone());
    ledger::set_clone_bomb(None);
    let n = ledger::clone_calls();
    judge(k, r, None, |v| {
        intact("the cloned box", &src, &before)?;
        drop(v);
        drop(src);
        Ok(())
    })?;
    Ok(n)
}
pub fn clone_iter<N: ArrayLength, A: Elem>(pre: bool, f: usize, b: usize, k: Option<u64>) -> Result<u64, String> {
    let it = iter_at::<A, N>(pre, f, b);
    let before = ids_of(it.as_slice());
    let c0 = ledger::clone_calls();
    ledger::set_clone_bomb(k.map(|k| k + c0));
    let r = catch(|| it.clone());
    ledger::set_clone_bomb(None);
    let n = ledger::clone_calls() - c0;
    judge(k, r, None, |v| {
        intact("the cloned iterator", it.as_slice(), &before)?;
        if let Some(v) = &v {
            if v.len() != before.len() {
                return Err(format!("clone has {} elements, original {}", v.len(), before.len()));
            }
        }
        drop(v);
        drop(it);
        Ok(())
    })?;
    Ok(n)
}

// ---------------------------------------------------------------- iterator fold / rfold / adaptors

pub fn iter_fold<N: ArrayLength, A: Elem>(which: u8, pre: bool, f: usize, b: usize, k: Option<u64>) -> Result<u64, String> {
    let it = iter_at::<A, N>(pre, f, b);
    let len = it.len() as u64;
    let c0 = ledger::calls();
    ledger::set_call_bomb(k.map(|k| k + c0));
    let r = catch(move || match which {
        0 => it.fold(0u64, foldf::<A>()),
        1 => it.rfold(0u64, foldf::<A>()),
        2 => {
            let mut n = 0;
            it.for_each(|x| {
                ledger::tick("for_each");
                drop(x);
                n += 1;
            });
            n
        }
        3 => it
            .map(|x| {
                ledger::tick("map");
                x
            })
            .collect::<Vec<A>>()
            .len() as u64,
        _ => it
            .rev()
            .map(|x| {
                ledger::tick("map");
                x
            })
            .collect::<Vec<A>>()
            .len() as u64,
    });
    ledger::set_call_bomb(None);
    let calls = ledger::calls() - c0;
    judge(k, r, None, |v| match v {
        Some(c) if c != len => Err(format!("visited {c} of {len} elements")),
        _ => Ok(()),
    })?;
    Ok(calls)
}

// ---------------------------------------------------------------- collecting from a panicking source

/// entry: 0 try_from_iter, 1 from_iter, 2 try_boxed_from_iter, 3 boxed from_iter
pub fn collect_script<N: ArrayLength, A: Elem>(entry: u8, c: usize, exact: bool, k: Option<u64>) -> Result<u64, String> {
    ledger::set_call_bomb(k);
    let src = Script::<A>::new(c, exact);
    let r = catch(move || -> Result<usize, ()> {
        match entry {
            0 => GA::<A, N>::try_from_iter(src).map(|a| a.len()).map_err(|_| ()),
            1 => Ok(src.collect::<GA<A, N>>().len()),
            2 => GA::<A, N>::try_boxed_from_iter(src).map(|a| a.len()).map_err(|_| ()),
            _ => Ok(src.collect::<Box<GA<A, N>>>().len()),
        }
    });
    ledger::set_call_bomb(None);
    let calls = ledger::calls();
    let panics_plain = (entry == 1 || entry == 3) && c != N::USIZE;
    judge(k, r, if panics_plain { Some("expected") } else { None }, |v| match v {
        Some(Ok(n)) if c != N::USIZE || n != N::USIZE => Err(format!("Ok with {n} elements from a source of {c}")),
        Some(Err(())) if c == N::USIZE => Err("LengthError for a source of exactly N items".to_string()),
        _ => Ok(()),
    })?;
    Ok(calls)
}

/// a real source: `array.into_iter().map(f)` (or reversed) collected into an array
pub fn collect_chain<N: ArrayLength, A: Elem, U: Elem>(rev: bool, boxed: bool, k: Option<u64>) -> Result<u64, String> {
    let src = mk::<A, N>();
    ledger::set_call_bomb(k);
    let r = catch(move || {
        let f = mapf::<A, U>();
        match (rev, boxed) {
            (false, false) => src.into_iter().map(f).collect::<GA<U, N>>().len(),
            (true, false) => src.into_iter().rev().map(f).collect::<GA<U, N>>().len(),
            (false, true) => src.into_iter().map(f).collect::<Box<GA<U, N>>>().len(),
            (true, true) => src.into_iter().rev().map(f).collect::<Box<GA<U, N>>>().len(),
        }
    });
    ledger::set_call_bomb(None);
    let calls = ledger::calls();
    judge(k, r, None, |_| Ok(()))?;
    Ok(calls)
}

// ---------------------------------------------------------------- builders / consumer at every position

/// kind: 0 ArrayBuilder, 1 IntrusiveArrayBuilder; dropped after `p` writes (p == N: finished)
pub fn builder_at<N: ArrayLength, A: Elem>(kind: u8, p: usize) -> Result<(), String> {
    unsafe {
        if kind == 0 {
            let mut b = ArrayBuilder::<A, N>::new();
            {
                let (it, pos) = b.iter_position();
                for (i, dst) in it.enumerate() {
                    if i == p {
                        break;
                    }
                    dst.write(A::make());
                    *pos += 1;
                }
            }
            if b.is_full() != (p == N::USIZE) {
                return Err(format!("is_full() = {} after {p} of {} writes", b.is_full(), N::USIZE));
            }
            if p == N::USIZE {
                let arr = b.assume_init();
                let ids = ids_of(&arr);
                let (live, z) = A::live_of(&ids);
                ledger::check_exact(&live, z)?;
                drop(arr);
            } else {
                drop(b);
            }
        } else {
            let mut arr = GA::<A, N>::uninit();
            let mut b = IntrusiveArrayBuilder::new(&mut arr);
            {
                let (it, pos) = b.iter_position();
                for (i, dst) in it.enumerate() {
                    if i == p {
                        break;
                    }
                    dst.write(A::make());
                    *pos += 1;
                }
            }
            if b.is_full() != (p == N::USIZE) {
                return Err(format!("is_full() = {} after {p} of {} writes", b.is_full(), N::USIZE));
            }
            if p == N::USIZE {
                b.finish();
                let arr = IntrusiveArrayBuilder::array_assume_init(arr);
                let ids = ids_of(&arr);
                let (live, z) = A::live_of(&ids);
                ledger::check_exact(&live, z)?;
                drop(arr);
            } else {
                drop(b);
            }
        }
    }
    ledger::check_exact(&[], 0)
}

/// builders fed through `extend` from a source of c items, then dropped (or finished when full)
pub fn builder_extend<N: ArrayLength, A: Elem>(kind: u8, c: usize, k: Option<u64>) -> Result<u64, String> {
    ledger::set_call_bomb(k);
    let r = catch(|| unsafe {
        let mut src = Script::<A>::new(c, false);
        if kind == 0 {
            let mut b = ArrayBuilder::<A, N>::new();
            b.extend(&mut src);
            if b.is_full() {
                b.assume_init().len()
            } else {
                usize::MAX
            }
        } else {
            let mut arr = GA::<A, N>::uninit();
            let mut b = IntrusiveArrayBuilder::new(&mut arr);
            b.extend(&mut src);
            if b.is_full() {
                b.finish();
                IntrusiveArrayBuilder::array_assume_init(arr).len()
            } else {
                usize::MAX
            }
        }
    });
    ledger::set_call_bomb(None);
    let calls = ledger::calls();
    judge(k, r, None, |v| match v {
        Some(n) if (n == N::USIZE) != (c >= N::USIZE) => Err(format!("builder full={} after a source of {c}", n == N::USIZE)),
        _ => Ok(()),
    })?;
    Ok(calls)
}

/// ArrayConsumer dropped after moving out `p` elements
pub fn consumer_at<N: ArrayLength, A: Elem>(p: usize) -> Result<(), String> {
    let mut held: Vec<A> = Vec::new();
    unsafe {
        let mut c = ArrayConsumer::new(mk::<A, N>());
        {
            let (it, pos) = c.iter_position();
            for (i, src) in it.enumerate() {
                if i == p {
                    break;
                }
                held.push(core::ptr::read(src));
                *pos += 1;
            }
        }
        drop(c);
    }
    let ids = ids_of(&held);
    let (live, z) = A::live_of(&ids);
    ledger::check_exact(&live, z).map_err(|e| format!("after dropping the consumer at position {p}: {e}"))?;
    drop(held);
    ledger::check_exact(&[], 0)
}

// ---------------------------------------------------------------- enumeration

/// every index for up to 64 fault points; for longer runs the first, the last, the quartiles and both sides of
/// every power of two (the shapes of the binary storage recursion and of any chunked fast path)
pub fn fault_indices(count: u64) -> Vec<u64> {
    if count <= 64 {
        return (0..count).collect();
    }
    let mut v = vec![0, 1, 2, count / 4, count / 2, count / 2 + 1, 3 * count / 4, count - 3, count - 2, count - 1];
    let mut p = 8u64;
    while p < count {
        v.extend([p - 1, p, p + 1]);
        p *= 2;
    }
    v.retain(|&k| k < count);
    v.sort();
    v.dedup();
    v
}

pub fn drive(ctx: &mut Ctx, desc: &str, nonempty: bool, f: &dyn Fn(Option<u64>) -> Result<u64, String>) {
    // fault-free run: decides the number of fault points (needed in every shard)
    elems::reset_all();
    let count = if !ctx.prerun(desc, &format!("{desc};k=-")) {
        0
    } else {
        match catch(|| f(None)) {
            Ok(Ok(c)) => c,
            _ => 0, // reported by the k=- case below
        }
    };
    ctx.case(&format!("{desc};k=-"), || f(None).map(|c| CaseInfo::new(false, format!("fault-free:{}", if c == 0 { "0-calls" } else { "calls" }))));
    ctx.count("fault_points", count);
    for k in fault_indices(count) {
        let fired = Cell::new(0);
        ctx.case(&format!("{desc};k={k}"), || {
            f(Some(k))?;
            fired.set(ledger::fired());
            if ledger::fired() != 1 {
                return Err(format!("harness: {} faults fired, planned exactly one", ledger::fired()));
            }
            let pos = if k == 0 { "first" } else if k + 1 == count { "last" } else { "middle" };
            Ok(CaseInfo::new(nonempty, format!("panic-propagated:{pos}")))
        });
        if fired.get() == 1 {
            ctx.count("faults_fired", 1);
        }
    }
}

fn drive_pos(ctx: &mut Ctx, desc: &str, nonempty: bool, f: &dyn Fn() -> Result<(), String>) {
    ctx.case(desc, || f().map(|_| CaseInfo::new(nonempty, "position")));
}

macro_rules! for_ns {
    ($ctx:expr, [$($n:ty),*], [$($tn:ty),*], $N:ident => $body:block) => {
        $( { type $N = $n; if <$N as generic_array::typenum::Unsigned>::USIZE <= vcommon::maxn() { $body } } )*
        { $( { type $N = $tn; if <$N as generic_array::typenum::Unsigned>::USIZE <= vcommon::maxn() { $body } } )* }
    };
}

macro_rules! d {
    ($ctx:expr, $N:ty, $name:literal, $types:literal, $f:expr) => {
        drive($ctx, &format!("C04;{};N={};{}", $name, <$N>::USIZE, $types), <$N>::USIZE > 0, &$f)
    };
}

pub fn run(ctx: &mut Ctx) {
    for_ns!(ctx, [U0, U1, U2, U3, U4, U5, U6, U9, U17], [U7, U8, U16, U33], N => {
        // generate / default: output type selects nothing here, but Tr / TrZ / plain are all run
        d!(ctx, N, "generate-owned", "U=Tr4", |k| gen_owned::<N, Tr<0>>(k));
        d!(ctx, N, "generate-owned", "U=TrZ", |k| gen_owned::<N, TrZ>(k));
        d!(ctx, N, "generate-owned", "U=u32", |k| gen_owned::<N, u32>(k));
        d!(ctx, N, "generate-ref", "U=Tr4", |k| gen_ref::<N, Tr<0>>(k));
        d!(ctx, N, "generate-mut", "U=Tr4", |k| gen_mut::<N, Tr<0>>(k));
        d!(ctx, N, "generate-box", "U=Tr4", |k| gen_box::<N, Tr<0>>(k));
        d!(ctx, N, "generate-box", "U=TrZ", |k| gen_box::<N, TrZ>(k));
        d!(ctx, N, "generate-box", "U=Tr24", |k| gen_box::<N, Tr<5>>(k));
        d!(ctx, N, "generate-box", "U=Zn", |k| gen_box::<N, Zn>(k));
        d!(ctx, N, "generate-owned", "U=Zn", |k| gen_owned::<N, Zn>(k));
        d!(ctx, N, "default-boxed", "U=Zn", |k| default_boxed::<N, Zn>(k));
        d!(ctx, N, "default-boxed", "U=Nd", |k| default_boxed::<N, Nd>(k));
        d!(ctx, N, "default-boxed", "U=Nb", |k| default_boxed::<N, Nb>(k));
        d!(ctx, N, "default-owned", "U=Nb", |k| default_owned::<N, Nb>(k));
        d!(ctx, N, "clone-array", "A=Nb", |k| clone_arr::<N, Nb>(k));
        d!(ctx, N, "map-owned", "A=Nb,U=Nb", |k| map_owned::<N, Nb, Nb>(k));
        d!(ctx, N, "map-owned", "A=Zn,U=Tr4", |k| map_owned::<N, Zn, Tr<0>>(k));
        d!(ctx, N, "default-owned", "U=Tr4", |k| default_owned::<N, Tr<0>>(k));
        d!(ctx, N, "default-owned", "U=TrZ", |k| default_owned::<N, TrZ>(k));
        d!(ctx, N, "default-boxed", "U=Tr4", |k| default_boxed::<N, Tr<0>>(k));
        d!(ctx, N, "default-boxed", "U=TrZ", |k| default_boxed::<N, TrZ>(k));
        // map: input in {Tr, TrZ, u32} x output in {Tr, u32}
        d!(ctx, N, "map-owned", "A=Tr4,U=Tr4", |k| map_owned::<N, Tr<0>, Tr<0>>(k));
        d!(ctx, N, "map-owned", "A=Tr4,U=u32", |k| map_owned::<N, Tr<0>, u32>(k));
        d!(ctx, N, "map-owned", "A=TrZ,U=Tr4", |k| map_owned::<N, TrZ, Tr<0>>(k));
        d!(ctx, N, "map-owned", "A=TrZ,U=TrZ", |k| map_owned::<N, TrZ, TrZ>(k));
        d!(ctx, N, "map-owned", "A=u32,U=Tr4", |k| map_owned::<N, u32, Tr<0>>(k));
        d!(ctx, N, "map-owned", "A=Tr24,U=Tr8", |k| map_owned::<N, Tr<5>, Tr<1>>(k));
        d!(ctx, N, "map-owned", "A=Tr128,U=Tr128", |k| map_owned::<N, Tr<31>, Tr<31>>(k));
        // unusual representations: over-aligned drop-tracked (size = align = 32), 3-byte plain
        d!(ctx, N, "map-owned", "A=TrA32,U=TrA32", |k| map_owned::<N, TrA, TrA>(k));
        d!(ctx, N, "map-owned", "A=TrA32,U=b3", |k| map_owned::<N, TrA, B3>(k));
        d!(ctx, N, "map-box", "A=b3,U=TrA32", |k| map_box::<N, B3, TrA>(k));
        d!(ctx, N, "map-box", "A=TrA32,U=Tr4", |k| map_box::<N, TrA, Tr<0>>(k));
        d!(ctx, N, "generate-box", "U=TrA32", |k| gen_box::<N, TrA>(k));
        d!(ctx, N, "generate-owned", "U=TrA32", |k| gen_owned::<N, TrA>(k));
        d!(ctx, N, "clone-array", "A=TrA32", |k| clone_arr::<N, TrA>(k));
        d!(ctx, N, "clone-box", "A=TrA32", |k| clone_box::<N, TrA>(k));
        d!(ctx, N, "fold-owned", "A=TrA32", |k| fold_owned::<N, TrA>(k));
        d!(ctx, N, "map-ref", "A=Tr4,U=Tr4", |k| map_ref::<N, Tr<0>, Tr<0>>(k));
        d!(ctx, N, "map-ref", "A=u32,U=Tr4", |k| map_ref::<N, u32, Tr<0>>(k));
        d!(ctx, N, "map-ref", "A=TrZ,U=TrZ", |k| map_ref::<N, TrZ, TrZ>(k));
        d!(ctx, N, "map-mut", "A=Tr4,U=Tr4", |k| map_mut::<N, Tr<0>, Tr<0>>(k));
        d!(ctx, N, "map-mut", "A=Tr4,U=u32", |k| map_mut::<N, Tr<0>, u32>(k));
        d!(ctx, N, "map-box", "A=Tr4,U=Tr4", |k| map_box::<N, Tr<0>, Tr<0>>(k));
        d!(ctx, N, "map-box", "A=TrZ,U=Tr4", |k| map_box::<N, TrZ, Tr<0>>(k));
        d!(ctx, N, "map-box", "A=u32,U=Tr4", |k| map_box::<N, u32, Tr<0>>(k));
        // fold
        d!(ctx, N, "fold-owned", "A=Tr4", |k| fold_owned::<N, Tr<0>>(k));
        d!(ctx, N, "fold-owned", "A=TrZ", |k| fold_owned::<N, TrZ>(k));
        d!(ctx, N, "fold-owned", "A=u32", |k| fold_owned::<N, u32>(k));
        d!(ctx, N, "fold-ref", "A=Tr4", |k| fold_ref::<N, Tr<0>>(k));
        d!(ctx, N, "fold-mut", "A=Tr4", |k| fold_mut::<N, Tr<0>>(k));
        d!(ctx, N, "fold-box", "A=Tr4", |k| fold_box::<N, Tr<0>>(k));
        d!(ctx, N, "fold-box", "A=TrZ", |k| fold_box::<N, TrZ>(k));
        // zip: nine stack forms; type triples select the needs_drop branches
        macro_rules! zips {
            ($fname:ident, $label:literal) => {
                d!(ctx, N, $label, "A=Tr4,B=Tr4,U=Tr4", |k| $fname::<N, Tr<0>, Tr<0>, Tr<0>>(k));
                d!(ctx, N, $label, "A=Tr4,B=u32,U=u32", |k| $fname::<N, Tr<0>, u32, u32>(k));
                d!(ctx, N, $label, "A=u32,B=Tr4,U=Tr4", |k| $fname::<N, u32, Tr<0>, Tr<0>>(k));
                d!(ctx, N, $label, "A=u32,B=u32,U=Tr4", |k| $fname::<N, u32, u32, Tr<0>>(k));
                d!(ctx, N, $label, "A=TrZ,B=Tr4,U=u32", |k| $fname::<N, TrZ, Tr<0>, u32>(k));
                d!(ctx, N, $label, "A=Tr4,B=TrZ,U=Tr4", |k| $fname::<N, Tr<0>, TrZ, Tr<0>>(k));
                d!(ctx, N, $label, "A=Tr24,B=Tr8,U=TrZ", |k| $fname::<N, Tr<5>, Tr<1>, TrZ>(k));
                d!(ctx, N, $label, "A=Nd,B=Nd,U=Tr4", |k| $fname::<N, Nd, Nd, Tr<0>>(k));
                d!(ctx, N, $label, "A=Tr4,B=Nd,U=Nd", |k| $fname::<N, Tr<0>, Nd, Nd>(k));
                d!(ctx, N, $label, "A=TrA32,B=b3,U=TrA32", |k| $fname::<N, TrA, B3, TrA>(k));
                d!(ctx, N, $label, "A=b3,B=TrA32,U=b3", |k| $fname::<N, B3, TrA, B3>(k));
            };
        }
        zips!(zip_oo, "zip-owned-owned");
        zips!(zip_os, "zip-owned-ref");
        zips!(zip_om, "zip-owned-mut");
        zips!(zip_so, "zip-ref-owned");
        zips!(zip_ss, "zip-ref-ref");
        zips!(zip_sm, "zip-ref-mut");
        zips!(zip_mo, "zip-mut-owned");
        zips!(zip_ms, "zip-mut-ref");
        zips!(zip_mm, "zip-mut-mut");
        zips!(zip_bb, "zip-box-box");
        // Clone
        d!(ctx, N, "clone-array", "A=Tr4", |k| clone_arr::<N, Tr<0>>(k));
        d!(ctx, N, "clone-array", "A=TrZ", |k| clone_arr::<N, TrZ>(k));
        d!(ctx, N, "clone-array", "A=Tr24", |k| clone_arr::<N, Tr<5>>(k));
        d!(ctx, N, "clone-array", "A=Nd", |k| clone_arr::<N, Nd>(k));
        d!(ctx, N, "clone-box", "A=Nd", |k| clone_box::<N, Nd>(k));
        d!(ctx, N, "map-owned", "A=Nd,U=Tr4", |k| map_owned::<N, Nd, Tr<0>>(k));
        d!(ctx, N, "default-owned", "U=Nd", |k| default_owned::<N, Nd>(k));
        d!(ctx, N, "clone-box", "A=Tr4", |k| clone_box::<N, Tr<0>>(k));
        d!(ctx, N, "clone_from-array", "A=Tr4", |k| clone_from_arr::<N, Tr<0>>(false, k));
        d!(ctx, N, "clone_from-array", "A=TrZ", |k| clone_from_arr::<N, TrZ>(false, k));
        d!(ctx, N, "clone_from-array", "A=Nd", |k| clone_from_arr::<N, Nd>(false, k));
        d!(ctx, N, "clone_from-box", "A=Tr4", |k| clone_from_arr::<N, Tr<0>>(true, k));
        d!(ctx, N, "clone-box", "A=TrZ", |k| clone_box::<N, TrZ>(k));
        // collecting from a panicking source
        for entry in 0u8..4 {
            let en = ["try_from_iter", "from_iter", "try_boxed_from_iter", "boxed-from_iter"][entry as usize];
            let mut cs: Vec<usize> = vec![0, N::USIZE.saturating_sub(1), N::USIZE, N::USIZE + 1, N::USIZE + 2];
            cs.sort();
            cs.dedup();
            for &c in &cs {
                for exact in [true, false] {
                    drive(ctx, &format!("C04;collect-{en};N={};A=Tr4;c={c};hint={}", N::USIZE, if exact { "exact" } else { "none" }), c > 0,
                        &|k| collect_script::<N, Tr<0>>(entry, c, exact, k));
                }
                drive(ctx, &format!("C04;collect-{en};N={};A=TrZ;c={c};hint=none", N::USIZE), c > 0, &|k| collect_script::<N, TrZ>(entry, c, false, k));
            }
        }
        for rev in [false, true] {
            for boxed in [false, true] {
                drive(ctx, &format!("C04;collect-chain;N={};A=Tr4,U=Tr4;rev={rev};boxed={boxed}", N::USIZE), N::USIZE > 0, &|k| collect_chain::<N, Tr<0>, Tr<0>>(rev, boxed, k));
                drive(ctx, &format!("C04;collect-chain;N={};A=TrZ,U=Tr4;rev={rev};boxed={boxed}", N::USIZE), N::USIZE > 0, &|k| collect_chain::<N, TrZ, Tr<0>>(rev, boxed, k));
            }
        }
        // builders and consumer at every position
        for p in 0..=N::USIZE {
            for kind in 0u8..2 {
                let kn = ["ArrayBuilder", "IntrusiveArrayBuilder"][kind as usize];
                drive_pos(ctx, &format!("C04;{kn}-drop-at;N={};A=Tr4;p={p}", N::USIZE), p > 0, &|| builder_at::<N, Tr<0>>(kind, p));
                drive_pos(ctx, &format!("C04;{kn}-drop-at;N={};A=TrZ;p={p}", N::USIZE), p > 0, &|| builder_at::<N, TrZ>(kind, p));
            }
            drive_pos(ctx, &format!("C04;ArrayConsumer-drop-at;N={};A=Tr4;p={p}", N::USIZE), true, &|| consumer_at::<N, Tr<0>>(p));
            drive_pos(ctx, &format!("C04;ArrayConsumer-drop-at;N={};A=TrZ;p={p}", N::USIZE), true, &|| consumer_at::<N, TrZ>(p));
            drive_pos(ctx, &format!("C04;ArrayConsumer-drop-at;N={};A=u32;p={p}", N::USIZE), true, &|| consumer_at::<N, u32>(p));
        }
        for c in 0..=N::USIZE + 2 {
            for kind in 0u8..2 {
                let kn = ["ArrayBuilder", "IntrusiveArrayBuilder"][kind as usize];
                drive(ctx, &format!("C04;{kn}-extend;N={};A=Tr4;c={c}", N::USIZE), c > 0, &|k| builder_extend::<N, Tr<0>>(kind, c, k));
            }
        }
    });
    // large lengths (fault-index lattice): a fast path keyed on the length would only show here
    for_ns!(ctx, [U100, U1000], [], N => {
        d!(ctx, N, "generate-owned", "U=Tr4", |k| gen_owned::<N, Tr<0>>(k));
        d!(ctx, N, "generate-box", "U=Tr4", |k| gen_box::<N, Tr<0>>(k));
        d!(ctx, N, "generate-box", "U=Zn", |k| gen_box::<N, Zn>(k));
        d!(ctx, N, "default-owned", "U=Tr4", |k| default_owned::<N, Tr<0>>(k));
        d!(ctx, N, "default-boxed", "U=Tr4", |k| default_boxed::<N, Tr<0>>(k));
        d!(ctx, N, "map-owned", "A=Tr4,U=Tr4", |k| map_owned::<N, Tr<0>, Tr<0>>(k));
        d!(ctx, N, "map-owned", "A=TrZ,U=Tr4", |k| map_owned::<N, TrZ, Tr<0>>(k));
        d!(ctx, N, "map-owned", "A=Tr128,U=u32", |k| map_owned::<N, Tr<31>, u32>(k));
        d!(ctx, N, "map-ref", "A=Tr4,U=Tr4", |k| map_ref::<N, Tr<0>, Tr<0>>(k));
        d!(ctx, N, "map-mut", "A=Tr4,U=Tr4", |k| map_mut::<N, Tr<0>, Tr<0>>(k));
        d!(ctx, N, "map-box", "A=Tr4,U=Tr4", |k| map_box::<N, Tr<0>, Tr<0>>(k));
        d!(ctx, N, "fold-owned", "A=Tr4", |k| fold_owned::<N, Tr<0>>(k));
        d!(ctx, N, "fold-box", "A=Tr4", |k| fold_box::<N, Tr<0>>(k));
        d!(ctx, N, "zip-owned-owned", "A=Tr4,B=Tr4,U=Tr4", |k| zip_oo::<N, Tr<0>, Tr<0>, Tr<0>>(k));
        d!(ctx, N, "zip-owned-owned", "A=Tr4,B=u32,U=u32", |k| zip_oo::<N, Tr<0>, u32, u32>(k));
        d!(ctx, N, "zip-owned-ref", "A=Tr4,B=u32,U=u32", |k| zip_os::<N, Tr<0>, u32, u32>(k));
        d!(ctx, N, "zip-ref-owned", "A=u32,B=Tr4,U=Tr4", |k| zip_so::<N, u32, Tr<0>, Tr<0>>(k));
        d!(ctx, N, "zip-mut-mut", "A=Tr4,B=Tr4,U=Tr4", |k| zip_mm::<N, Tr<0>, Tr<0>, Tr<0>>(k));
        d!(ctx, N, "zip-box-box", "A=Tr4,B=Tr4,U=Tr4", |k| zip_bb::<N, Tr<0>, Tr<0>, Tr<0>>(k));
        d!(ctx, N, "clone-array", "A=Tr4", |k| clone_arr::<N, Tr<0>>(k));
        d!(ctx, N, "clone-array", "A=Nd", |k| clone_arr::<N, Nd>(k));
        d!(ctx, N, "clone-box", "A=Tr4", |k| clone_box::<N, Tr<0>>(k));
        for entry in 0u8..4 {
            let en = ["try_from_iter", "from_iter", "try_boxed_from_iter", "boxed-from_iter"][entry as usize];
            for c in [N::USIZE - 1, N::USIZE, N::USIZE + 1] {
                drive(ctx, &format!("C04;collect-{en};N={};A=Tr4;c={c};hint=none", N::USIZE), true, &|k| collect_script::<N, Tr<0>>(entry, c, false, k));
            }
        }
        drive(ctx, &format!("C04;collect-chain;N={};A=Tr4,U=Tr4;rev=true;boxed=false", N::USIZE), true, &|k| collect_chain::<N, Tr<0>, Tr<0>>(true, false, k));
        for (f, b) in [(0usize, 0usize), (1, 1), (N::USIZE / 2, 0), (0, N::USIZE / 2), (N::USIZE / 3, N::USIZE / 3), (N::USIZE - 1, 0), (0, N::USIZE)] {
            for pre in [false, true] {
                let pos = format!("N={};origin={};f={f};b={b}", N::USIZE, if pre { "clone" } else { "fresh" });
                drive(ctx, &format!("C04;iter-clone;{pos};A=Tr4"), true, &|k| clone_iter::<N, Tr<0>>(pre, f, b, k));
                drive(ctx, &format!("C04;iter-fold;{pos};A=Tr4"), true, &|k| iter_fold::<N, Tr<0>>(0, pre, f, b, k));
                drive(ctx, &format!("C04;iter-rfold;{pos};A=Tr4"), true, &|k| iter_fold::<N, Tr<0>>(1, pre, f, b, k));
            }
        }
    });
    // iterator positions: every (origin, front, back) for the smaller lengths
    for_ns!(ctx, [U0, U1, U2, U3, U4, U5, U6], [U7, U8, U16], N => {
        for pre in [false, true] {
            for f in 0..=N::USIZE {
                for b in 0..=N::USIZE - f {
                    let pos = format!("N={};origin={};f={f};b={b}", N::USIZE, if pre { "clone" } else { "fresh" });
                    let ne = N::USIZE - f - b > 0;
                    drive(ctx, &format!("C04;iter-clone;{pos};A=Tr4"), ne, &|k| clone_iter::<N, Tr<0>>(pre, f, b, k));
                    drive(ctx, &format!("C04;iter-clone;{pos};A=TrZ"), ne, &|k| clone_iter::<N, TrZ>(pre, f, b, k));
                    drive(ctx, &format!("C04;iter-clone_from;{pos};A=Tr4"), ne, &|k| clone_from_iter::<N, Tr<0>>(pre, f, b, k));
                    drive(ctx, &format!("C04;iter-clone_from;{pos};A=TrZ"), ne, &|k| clone_from_iter::<N, TrZ>(pre, f, b, k));
                    drive(ctx, &format!("C04;iter-clone;{pos};A=Tr24"), ne, &|k| clone_iter::<N, Tr<5>>(pre, f, b, k));
                    for which in 0u8..5 {
                        let wn = ["fold", "rfold", "for_each", "map-collect", "rev-map-collect"][which as usize];
                        drive(ctx, &format!("C04;iter-{wn};{pos};A=Tr4"), ne, &|k| iter_fold::<N, Tr<0>>(which, pre, f, b, k));
                        drive(ctx, &format!("C04;iter-{wn};{pos};A=TrZ"), ne, &|k| iter_fold::<N, TrZ>(which, pre, f, b, k));
                    }
                }
            }
        }
    });
}
