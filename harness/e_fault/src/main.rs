//! C04 / C05 — fault enumeration on the real code.
//!
//! C04: for every callback-bearing operation x receiver form x length x element types, a
//! fault-free run counts the calls into caller code, then one execution per call index k with
//! that call panicking.  Oracle: the panic propagates, nothing is returned, borrowed sources are
//! intact, and after dropping the survivors every element that ever existed was dropped exactly once.
//!
//! C05: for every operation that drops elements internally x every choice of the single element
//! whose destructor panics (once, never while already panicking).  Oracle: no element is dropped
//! twice and none is observed after its drop (leaks are counted, not flagged).

use generic_array::functional::*;
use generic_array::internals::*;
use generic_array::sequence::*;
use generic_array::typenum::*;
use generic_array::{ArrayLength, GenericArray, GenericArrayIter, LengthError};
use std::panic::AssertUnwindSafe;
use vcommon::*;

mod c04;
mod c05;

pub type GA<T, N> = GenericArray<T, N>;

/// Build an array of fresh elements without going through any callback-bearing crate API.
pub fn mk<E: Elem, N: ArrayLength>() -> GA<E, N> {
    let mut a = GA::<E, N>::uninit();
    for s in a.iter_mut() {
        s.write(E::make());
    }
    unsafe { GA::assume_init(a) }
}

pub fn ids_of<E: Elem>(s: &[E]) -> Vec<u32> {
    s.iter().map(|e| e.ident()).collect()
}

/// scripted source: yields `remaining` fresh elements, then None; every `next` is a fault point
pub struct Script<E: Elem> {
    pub remaining: usize,
    pub exact_hint: bool,
    pub _p: core::marker::PhantomData<E>,
}
impl<E: Elem> Script<E> {
    pub fn new(c: usize, exact_hint: bool) -> Self {
        Script { remaining: c, exact_hint, _p: core::marker::PhantomData }
    }
}
impl<E: Elem> Iterator for Script<E> {
    type Item = E;
    fn next(&mut self) -> Option<E> {
        ledger::tick("next");
        if self.remaining > 0 {
            self.remaining -= 1;
            Some(E::make())
        } else {
            None
        }
    }
    fn size_hint(&self) -> (usize, Option<usize>) {
        if self.exact_hint {
            (self.remaining, Some(self.remaining))
        } else {
            (0, None)
        }
    }
}

/// advance a fresh (or cloned) iterator to position (f consumed at the front, b at the back)
pub fn iter_at<E: Elem, N: ArrayLength>(pre_clone: bool, f: usize, b: usize) -> GenericArrayIter<E, N> {
    let mut it = mk::<E, N>().into_iter();
    if pre_clone {
        let c = it.clone();
        drop(it);
        it = c;
    }
    for _ in 0..f {
        drop(it.next());
    }
    for _ in 0..b {
        drop(it.next_back());
    }
    it
}

fn main() {
    let mut ctx = Ctx::from_args();
    match ctx.mode.as_str() {
        "C04" => c04::run(&mut ctx),
        "C05" => c05::run(&mut ctx),
        m => {
            eprintln!("unknown mode {m}");
            std::process::exit(2)
        }
    }
    ctx.finish(json!({}));
}

#[allow(unused)]
fn _unused(_: LengthError, _: AssertUnwindSafe<()>) {}
