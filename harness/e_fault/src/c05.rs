//! C05 scenarios: one panicking destructor per execution.
//!
//! A scenario is `fn(Option<u64>) -> Result<Out, String>`.  The fault-free run (None) reports the
//! candidates: every element whose destructor runs after the arming point (tracked: its id;
//! zero-sized: the index of the drop).  Then one execution per candidate with that destructor
//! panicking once.  After the caught panic the run *continues* (views observed, one more
//! next/next_back, then everything is dropped) before the ledger is judged.

use super::*;
use std::cell::RefCell;

pub struct Out {
    pub cands: Vec<u64>,
    pub fired_in_op: bool,
    pub leaked: u32,
    pub op_panicked: bool,
}

struct Armed {
    log0: usize,
    z0: u64,
}

fn arm<E: Elem>(b: Option<u64>) -> Armed {
    let (log0, z0) = ledger::with(|l| (l.drop_log.len(), l.z_dropped));
    if let Some(x) = b {
        if E::ZST {
            ledger::set_zdrop_bomb(Some(z0 + x));
        } else {
            ledger::set_drop_bomb(Some(x as u32));
        }
    }
    Armed { log0, z0 }
}

/// Run `op` (may panic) on the state, then `observe` the survivor (if any), then drop it.
/// `plain_ok`: message fragment of a documented non-injected panic the operation may raise.
fn run5<E: Elem, S>(
    bomb: Option<u64>,
    setup: impl FnOnce() -> S,
    op: impl FnOnce(&mut Option<S>),
    observe: impl FnOnce(&mut S),
    plain_ok: Option<&str>,
) -> Result<Out, String> {
    let mut st = Some(setup());
    let armed = arm::<E>(bomb);
    let r = catch(AssertUnwindSafe(|| op(&mut st)));
    let fired_in_op = ledger::fired() > 0;
    let mut op_panicked = false;
    match &r {
        Ok(()) => {}
        Err(PanicKind::Injected(_)) => op_panicked = true,
        Err(PanicKind::Other(m)) => match plain_ok {
            Some(frag) if m.contains(frag) => op_panicked = true,
            _ => return Err(format!("operation raised an unexpected panic: {m}")),
        },
    }
    if bomb.is_none() && matches!(r, Err(PanicKind::Injected(_))) {
        return Err("harness: injected panic without a plan".into());
    }
    // the run continues after the caught panic
    if let Some(s) = st.as_mut() {
        match catch(AssertUnwindSafe(|| observe(s))) {
            Err(PanicKind::Other(m)) => return Err(format!("continuing after the operation raised an unexpected panic: {m}")),
            _ => {}
        }
    }
    match catch(AssertUnwindSafe(|| drop(st.take()))) {
        Err(PanicKind::Other(m)) => return Err(format!("dropping the survivors raised an unexpected panic: {m}")),
        _ => {}
    }
    ledger::set_drop_bomb(None);
    ledger::set_zdrop_bomb(None);
    let leaked = ledger::check_no_double(&[])?;
    let cands = ledger::with(|l| {
        if E::ZST {
            (0..(l.z_dropped - armed.z0)).collect::<Vec<u64>>()
        } else {
            let mut v: Vec<u64> = l.drop_log[armed.log0..].iter().map(|&i| i as u64).collect();
            v.sort();
            v.dedup();
            v
        }
    });
    if bomb.is_none() && leaked > 0 {
        return Err(format!("fault-free run leaked {leaked} element(s)"));
    }
    Ok(Out { cands, fired_in_op, leaked, op_panicked })
}

#[derive(Clone, Copy, Debug)]
pub enum IOp {
    Nth(usize),
    NthBack(usize),
    Count,
    Last,
    Drop,
    FoldDrop,
    RfoldDrop,
    CloneDrop,
    CollectVec,
    ForEachDrop,
    // methods the crate leaves to std's provided implementations today; an "optimised" override of any of them is an
    // operation of the iterator like the others. `j`: the j-th item visited is the match / the break point.
    Find(usize),
    RFind(usize),
    Position(usize),
    RPosition(usize),
    Any(usize),
    All(usize),
    TryFold(usize),
    TryRfold(usize),
    Reduce,
    MaxByKey,
    MinByKey,
    Partition,
    SkipNext(usize),
    StepBy2,
    TakeDrop(usize),
    RevNth(usize),
    SkipWhile(usize),
    EqOther,
    /// `clone_from` INTO this iterator (its remaining elements are torn down) from a fresh two-element-consumed source
    CloneFromInto,
    /// `clone_from` FROM this iterator into a part-consumed destination
    CloneFromFrom,
}

impl IOp {
    fn name(&self) -> String {
        match self {
            IOp::Nth(n) => format!("nth({n})"),
            IOp::NthBack(n) => format!("nth_back({n})"),
            IOp::Count => "count".into(),
            IOp::Last => "last".into(),
            IOp::Drop => "drop".into(),
            IOp::FoldDrop => "fold-drop".into(),
            IOp::RfoldDrop => "rfold-drop".into(),
            IOp::CloneDrop => "clone-drop".into(),
            IOp::CollectVec => "collect-vec-drop".into(),
            IOp::ForEachDrop => "for_each-drop".into(),
            IOp::Find(j) => format!("find({j})"),
            IOp::RFind(j) => format!("rfind({j})"),
            IOp::Position(j) => format!("position({j})"),
            IOp::RPosition(j) => format!("rposition({j})"),
            IOp::Any(j) => format!("any({j})"),
            IOp::All(j) => format!("all({j})"),
            IOp::TryFold(j) => format!("try_fold({j})"),
            IOp::TryRfold(j) => format!("try_rfold({j})"),
            IOp::Reduce => "reduce".into(),
            IOp::MaxByKey => "max_by_key".into(),
            IOp::MinByKey => "min_by_key".into(),
            IOp::Partition => "partition".into(),
            IOp::SkipNext(j) => format!("skip({j}).next"),
            IOp::StepBy2 => "step_by(2)".into(),
            IOp::TakeDrop(j) => format!("by_ref.take({j})"),
            IOp::RevNth(j) => format!("rev.nth({j})"),
            IOp::SkipWhile(j) => format!("skip_while({j})"),
            IOp::EqOther => "zip-other".into(),
            IOp::CloneFromInto => "clone_from-into".into(),
            IOp::CloneFromFrom => "clone_from-from".into(),
        }
    }
}

fn observe_iter<E: Elem, N: ArrayLength>(it: &mut GenericArrayIter<E, N>) {
    let _ = ids_of(it.as_slice());
    let l = it.len();
    drop(it.next());
    drop(it.next_back());
    let _ = ids_of(it.as_mut_slice());
    let _ = (l, it.size_hint());
}

pub fn iter_op<N: ArrayLength, E: Elem>(pre: bool, f: usize, b: usize, op: IOp, bomb: Option<u64>) -> Result<Out, String> {
    run5::<E, GenericArrayIter<E, N>>(
        bomb,
        || iter_at::<E, N>(pre, f, b),
        |st| match op {
            IOp::Nth(n) => drop(st.as_mut().unwrap().nth(n)),
            IOp::NthBack(n) => drop(st.as_mut().unwrap().nth_back(n)),
            IOp::Count => {
                let _ = st.take().unwrap().count();
            }
            IOp::Last => drop(st.take().unwrap().last()),
            IOp::Drop => drop(st.take().unwrap()),
            IOp::FoldDrop => st.take().unwrap().fold((), |_, e| drop(e)),
            IOp::RfoldDrop => st.take().unwrap().rfold((), |_, e| drop(e)),
            IOp::ForEachDrop => st.take().unwrap().for_each(drop),
            IOp::CloneDrop => {
                let c = st.as_ref().unwrap().clone();
                drop(c);
            }
            IOp::CollectVec => {
                let v: Vec<E> = st.take().unwrap().collect();
                drop(v);
            }
            IOp::Find(j) => {
                let mut c = 0;
                drop(st.as_mut().unwrap().find(|_| { c += 1; c == j + 1 }));
            }
            IOp::RFind(j) => {
                let mut c = 0;
                drop(st.as_mut().unwrap().rfind(|_| { c += 1; c == j + 1 }));
            }
            IOp::Position(j) => {
                let mut c = 0;
                let _ = st.as_mut().unwrap().position(|e| { drop(e); c += 1; c == j + 1 });
            }
            IOp::RPosition(j) => {
                let mut c = 0;
                let _ = st.as_mut().unwrap().rposition(|e| { drop(e); c += 1; c == j + 1 });
            }
            IOp::Any(j) => {
                let mut c = 0;
                let _ = st.as_mut().unwrap().any(|e| { drop(e); c += 1; c == j + 1 });
            }
            IOp::All(j) => {
                let mut c = 0;
                let _ = st.as_mut().unwrap().all(|e| { drop(e); c += 1; c != j + 1 });
            }
            IOp::TryFold(j) => {
                let _ = st.as_mut().unwrap().try_fold(0usize, |acc, e| { drop(e); if acc == j { None } else { Some(acc + 1) } });
            }
            IOp::TryRfold(j) => {
                let _ = st.as_mut().unwrap().try_rfold(0usize, |acc, e| { drop(e); if acc == j { None } else { Some(acc + 1) } });
            }
            IOp::Reduce => drop(st.take().unwrap().reduce(|a, b| { drop(a); b })),
            IOp::MaxByKey => drop(st.take().unwrap().max_by_key(|e| e.ident())),
            IOp::MinByKey => drop(st.take().unwrap().min_by_key(|e| e.ident())),
            IOp::Partition => {
                let mut c = 0;
                let (x, y): (Vec<E>, Vec<E>) = st.take().unwrap().partition(|_| { c += 1; c % 2 == 0 });
                drop(y);
                drop(x);
            }
            IOp::SkipNext(j) => {
                let mut sk = st.take().unwrap().skip(j);
                drop(sk.next());
                drop(sk);
            }
            IOp::StepBy2 => st.take().unwrap().step_by(2).for_each(drop),
            IOp::TakeDrop(j) => st.as_mut().unwrap().by_ref().take(j).for_each(drop),
            IOp::RevNth(j) => drop(st.as_mut().unwrap().by_ref().rev().nth(j)),
            IOp::SkipWhile(j) => {
                let mut c = 0;
                let mut sw = st.take().unwrap().skip_while(|_| { c += 1; c <= j });
                drop(sw.next());
                drop(sw);
            }
            IOp::EqOther => {
                let other = iter_at::<E, N>(false, 0, 0);
                st.take().unwrap().zip(other).for_each(|(a, b)| { drop(a); drop(b) });
            }
            IOp::CloneFromInto => {
                let src = iter_at::<E, N>(false, N::USIZE.min(1), N::USIZE.saturating_sub(1).min(1));
                st.as_mut().unwrap().clone_from(&src);
                drop(src);
            }
            IOp::CloneFromFrom => {
                let mut dst = iter_at::<E, N>(false, N::USIZE.min(1), N::USIZE.saturating_sub(1).min(1));
                dst.clone_from(st.as_ref().unwrap());
                drop(dst);
            }
        },
        observe_iter::<E, N>,
        None,
    )
}

/// kind: 0 drop GenericArray, 1 drop Box<GenericArray>, 2 into_iter then drop, 3 boxed into_iter then drop
pub fn drop_whole<N: ArrayLength, E: Elem>(kind: u8, bomb: Option<u64>) -> Result<Out, String> {
    run5::<E, ()>(
        bomb,
        || (),
        |_| match kind {
            0 => drop(mk::<E, N>()),
            1 => drop(Box::new(mk::<E, N>())),
            2 => drop(mk::<E, N>().into_iter()),
            _ => drop(Box::new(mk::<E, N>()).into_iter()),
        },
        |_| (),
        None,
    )
}

pub fn builder_drop<N: ArrayLength, E: Elem>(kind: u8, p: usize, bomb: Option<u64>) -> Result<Out, String> {
    run5::<E, ()>(
        bomb,
        || (),
        |_| unsafe {
            if kind == 0 {
                let mut b = ArrayBuilder::<E, N>::new();
                {
                    let (it, pos) = b.iter_position();
                    for (i, dst) in it.enumerate() {
                        if i == p {
                            break;
                        }
                        dst.write(E::make());
                        *pos += 1;
                    }
                }
                drop(b);
            } else {
                let mut arr = GA::<E, N>::uninit();
                let mut b = IntrusiveArrayBuilder::new(&mut arr);
                {
                    let (it, pos) = b.iter_position();
                    for (i, dst) in it.enumerate() {
                        if i == p {
                            break;
                        }
                        dst.write(E::make());
                        *pos += 1;
                    }
                }
                drop(b);
            }
        },
        |_| (),
        None,
    )
}

pub fn consumer_drop<N: ArrayLength, E: Elem>(p: usize, bomb: Option<u64>) -> Result<Out, String> {
    let held: RefCell<Vec<E>> = RefCell::new(Vec::new());
    let r = run5::<E, ()>(
        bomb,
        || (),
        |_| unsafe {
            let mut c = ArrayConsumer::new(mk::<E, N>());
            {
                let (it, pos) = c.iter_position();
                for (i, src) in it.enumerate() {
                    if i == p {
                        break;
                    }
                    held.borrow_mut().push(core::ptr::read(src));
                    *pos += 1;
                }
            }
            drop(c);
        },
        |_| {
            // elements moved out of the consumer are the caller's: still observable
            let _ = ids_of(&held.borrow());
            let v = core::mem::take(&mut *held.borrow_mut());
            let _ = catch(AssertUnwindSafe(|| drop(v)));
        },
        None,
    );
    // `observe` runs only if a state survives; () always does
    r
}

/// wrong-length collection: the error path drops what was pulled.
/// entry: 0 try_from_iter, 1 from_iter, 2 try_boxed_from_iter, 3 boxed from_iter, 4 TryFrom<Vec>, 5 try_from_vec, 6 try_from_boxed_slice, 7 TryFrom<Box<[T]>>
pub fn collect_err<N: ArrayLength, E: Elem>(entry: u8, c: usize, bomb: Option<u64>) -> Result<Out, String> {
    let plain = if (entry == 1 || entry == 3) && c != N::USIZE { Some("expected") } else { None };
    run5::<E, ()>(
        bomb,
        || (),
        |_| {
            let src = Script::<E>::new(c, false);
            match entry {
                0 => drop(GA::<E, N>::try_from_iter(src)),
                1 => drop(src.collect::<GA<E, N>>()),
                2 => drop(GA::<E, N>::try_boxed_from_iter(src)),
                3 => drop(src.collect::<Box<GA<E, N>>>()),
                4 => drop(GA::<E, N>::try_from(src.collect::<Vec<E>>())),
                5 => drop(GA::<E, N>::try_from_vec(src.collect::<Vec<E>>())),
                6 => drop(GA::<E, N>::try_from_boxed_slice(src.collect::<Vec<E>>().into_boxed_slice())),
                _ => drop(GA::<E, N>::try_from(src.collect::<Vec<E>>().into_boxed_slice())),
            }
        },
        |_| (),
        plain,
    )
}

/// functional operations whose closure drops its argument(s).
/// kind: 0 map owned, 1 zip owned/owned, 2 fold owned, 3 map boxed, 4 zip owned/owned keeping the left, 5 fold boxed,
/// 6 zip owned/&, 7 zip owned/&mut, 8 zip &/owned, 9 zip &mut/owned, 10 zip boxed/boxed
pub fn func_drop<N: ArrayLength, E: Elem>(kind: u8, bomb: Option<u64>) -> Result<Out, String> {
    run5::<E, ()>(
        bomb,
        || (),
        |_| match kind {
            0 => drop(mk::<E, N>().map(|a| {
                drop(a);
                E::make()
            })),
            1 => drop(mk::<E, N>().zip(mk::<E, N>(), |a, b| {
                drop(a);
                drop(b);
                0u32
            })),
            2 => mk::<E, N>().fold((), |_, a| drop(a)),
            3 => drop(Box::new(mk::<E, N>()).map(|a| {
                drop(a);
                E::make()
            })),
            4 => drop(mk::<E, N>().zip(mk::<E, N>(), |a, b| {
                drop(b);
                a
            })),
            5 => Box::new(mk::<E, N>()).fold((), |_, a| drop(a)),
            // owned receiver, borrowed argument (and vice versa): the trait-default zip bodies
            6 => {
                let b = mk::<E, N>();
                drop(mk::<E, N>().zip(&b, |a, _| {
                    drop(a);
                    0u32
                }));
            }
            7 => {
                let mut b = mk::<E, N>();
                drop(mk::<E, N>().zip(&mut b, |a, _| {
                    drop(a);
                    0u32
                }));
            }
            8 => {
                let a = mk::<E, N>();
                drop((&a).zip(mk::<E, N>(), |_, b| {
                    drop(b);
                    0u32
                }));
            }
            9 => {
                let mut a = mk::<E, N>();
                drop((&mut a).zip(mk::<E, N>(), |_, b| {
                    drop(b);
                    0u32
                }));
            }
            _ => drop(Box::new(mk::<E, N>()).zip(Box::new(mk::<E, N>()), |a, b| {
                drop(a);
                drop(b);
                0u32
            })),
        },
        |_| (),
        None,
    )
}

/// remove / swap_remove with an out-of-range index: panics, the array is torn down while unwinding
pub fn remove_oob<N, E: Elem>(swap: bool, idx: usize, bomb: Option<u64>) -> Result<Out, String>
where
    N: ArrayLength + core::ops::Sub<B1>,
    Sub1<N>: ArrayLength,
{
    run5::<E, ()>(
        bomb,
        || (),
        |_| {
            let a = mk::<E, N>();
            if swap {
                drop(a.swap_remove(idx));
            } else {
                drop(a.remove(idx));
            }
        },
        |_| (),
        if idx >= N::USIZE { Some("Index out of bounds") } else { None },
    )
}

// ---------------------------------------------------------------- enumeration

fn drive5(ctx: &mut Ctx, desc: &str, f: &dyn Fn(Option<u64>) -> Result<Out, String>) {
    elems::reset_all();
    let cands = if !ctx.prerun(desc, &format!("{desc};e=-")) {
        vec![]
    } else {
        match catch(|| f(None)) {
            Ok(Ok(o)) => o.cands,
            _ => vec![],
        }
    };
    ctx.case(&format!("{desc};e=-"), || f(None).map(|o| CaseInfo::new(false, format!("fault-free:{}", if o.cands.is_empty() { "no-drops" } else { "drops" }))));
    ctx.count("candidates", cands.len() as u64);
    // every candidate for up to 64; beyond that the lattice of fault indices over the candidate list
    let picked: Vec<u64> = crate::c04::fault_indices(cands.len() as u64).into_iter().map(|i| cands[i as usize]).collect();
    for &e in &picked {
        let info = std::cell::Cell::new((false, 0u32));
        ctx.case(&format!("{desc};e={e}"), || {
            let o = f(Some(e))?;
            if ledger::fired() != 1 {
                return Err(format!("harness: {} destructor faults fired, planned exactly one", ledger::fired()));
            }
            info.set((o.fired_in_op, o.leaked));
            Ok(CaseInfo::new(
                o.fired_in_op,
                format!("{}:{}", if o.fired_in_op { "panicked-inside-op" } else { "panicked-outside-op" }, if o.leaked > 0 { "leaks" } else { "no-leak" }),
            ))
        });
        let (fi, lk) = info.get();
        if fi {
            ctx.count("faults_fired_inside_operation", 1);
        }
        ctx.count("leaked_elements_total(allowed)", lk as u64);
    }
}

macro_rules! for_ns {
    ($ctx:expr, [$($n:ty),*], [$($tn:ty),*], $N:ident => $body:block) => {
        $( { type $N = $n; if <$N as generic_array::typenum::Unsigned>::USIZE <= vcommon::maxn() { $body } } )*
        { $( { type $N = $tn; if <$N as generic_array::typenum::Unsigned>::USIZE <= vcommon::maxn() { $body } } )* }
    };
}

pub fn run(ctx: &mut Ctx) {
    // iterator operations from every reachable position
    for_ns!(ctx, [U0, U1, U2, U3, U4, U5, U6], [U7, U8, U16], N => {
        for pre in [false, true] {
            for f in 0..=N::USIZE {
                for b in 0..=N::USIZE - f {
                    let len = N::USIZE - f - b;
                    let mut ops = vec![IOp::Count, IOp::Last, IOp::Drop, IOp::FoldDrop, IOp::RfoldDrop, IOp::CloneDrop, IOp::CollectVec, IOp::ForEachDrop];
                    let skips: Vec<usize> = if N::USIZE <= 8 { (0..=len + 1).collect() } else { vec![0, 1, 2, len / 2, len.saturating_sub(1), len, len + 1] };
                    let mut skips = skips;
                    skips.sort();
                    skips.dedup();
                    for &n in &skips {
                        ops.push(IOp::Nth(n));
                        ops.push(IOp::NthBack(n));
                    }
                    ops.extend([IOp::Reduce, IOp::MaxByKey, IOp::MinByKey, IOp::Partition, IOp::StepBy2, IOp::EqOther, IOp::CloneFromInto, IOp::CloneFromFrom]);
                    let js: Vec<usize> = if N::USIZE <= 4 { (0..=len).collect() } else { let mut v = vec![0, 1, len / 2, len.saturating_sub(1), len]; v.sort(); v.dedup(); v };
                    for &j in &js {
                        ops.extend([IOp::Find(j), IOp::RFind(j), IOp::Position(j), IOp::RPosition(j), IOp::Any(j), IOp::All(j), IOp::TryFold(j), IOp::TryRfold(j),
                                    IOp::SkipNext(j), IOp::TakeDrop(j), IOp::RevNth(j), IOp::SkipWhile(j)]);
                    }
                    if N::USIZE > 8 && !(f <= 2 || b <= 2 || len <= 2) {
                        continue; // position lattice for the large length: near either end or nearly exhausted
                    }
                    for op in ops {
                        let pos = format!("N={};origin={};f={f};b={b};op={}", N::USIZE, if pre { "clone" } else { "fresh" }, op.name());
                        drive5(ctx, &format!("C05;iter;{pos};E=Tr4"), &|bm| iter_op::<N, Tr<0>>(pre, f, b, op, bm));
                        if N::USIZE <= 4 {
                            drive5(ctx, &format!("C05;iter;{pos};E=TrZ"), &|bm| iter_op::<N, TrZ>(pre, f, b, op, bm));
                            drive5(ctx, &format!("C05;iter;{pos};E=Tr24"), &|bm| iter_op::<N, Tr<5>>(pre, f, b, op, bm));
                        }
                    }
                }
            }
        }
    });
    for_ns!(ctx, [U0, U1, U2, U3, U4, U5, U6, U9, U17], [U7, U8, U16, U33], N => {
        for kind in 0u8..4 {
            let kn = ["array", "boxed-array", "fresh-iterator", "boxed-into_iter"][kind as usize];
            drive5(ctx, &format!("C05;drop-{kn};N={};E=Tr4", N::USIZE), &|bm| drop_whole::<N, Tr<0>>(kind, bm));
            drive5(ctx, &format!("C05;drop-{kn};N={};E=TrZ", N::USIZE), &|bm| drop_whole::<N, TrZ>(kind, bm));
        }
        for p in 0..=N::USIZE {
            for kind in 0u8..2 {
                let kn = ["ArrayBuilder", "IntrusiveArrayBuilder"][kind as usize];
                drive5(ctx, &format!("C05;{kn}-drop;N={};p={p};E=Tr4", N::USIZE), &|bm| builder_drop::<N, Tr<0>>(kind, p, bm));
                drive5(ctx, &format!("C05;{kn}-drop;N={};p={p};E=TrZ", N::USIZE), &|bm| builder_drop::<N, TrZ>(kind, p, bm));
            }
            drive5(ctx, &format!("C05;ArrayConsumer-drop;N={};p={p};E=Tr4", N::USIZE), &|bm| consumer_drop::<N, Tr<0>>(p, bm));
            drive5(ctx, &format!("C05;ArrayConsumer-drop;N={};p={p};E=TrZ", N::USIZE), &|bm| consumer_drop::<N, TrZ>(p, bm));
        }
        for entry in 0u8..8 {
            let en = ["try_from_iter", "from_iter", "try_boxed_from_iter", "boxed-from_iter", "TryFrom<Vec>", "try_from_vec", "try_from_boxed_slice", "TryFrom<Box<[T]>>"][entry as usize];
            let mut cs: Vec<usize> = vec![0, 1, N::USIZE.saturating_sub(1), N::USIZE, N::USIZE + 1, N::USIZE + 2];
            cs.sort();
            cs.dedup();
            for &c in &cs {
                drive5(ctx, &format!("C05;collect-{en};N={};c={c};E=Tr4", N::USIZE), &|bm| collect_err::<N, Tr<0>>(entry, c, bm));
                drive5(ctx, &format!("C05;collect-{en};N={};c={c};E=TrZ", N::USIZE), &|bm| collect_err::<N, TrZ>(entry, c, bm));
            }
        }
        for kind in 0u8..11 {
            let kn = ["map-owned", "zip-owned-owned", "fold-owned", "map-boxed", "zip-keep-left", "fold-boxed", "zip-owned-ref", "zip-owned-mut", "zip-ref-owned", "zip-mut-owned", "zip-box-box"][kind as usize];
            drive5(ctx, &format!("C05;{kn}-dropping-closure;N={};E=Tr4", N::USIZE), &|bm| func_drop::<N, Tr<0>>(kind, bm));
            drive5(ctx, &format!("C05;{kn}-dropping-closure;N={};E=TrZ", N::USIZE), &|bm| func_drop::<N, TrZ>(kind, bm));
        }
    });
    // large lengths: position lattice x skip lattice x candidate lattice
    for_ns!(ctx, [U100, U1000], [], N => {
        let n = N::USIZE;
        for pre in [false, true] {
            for (f, b) in [(0usize, 0usize), (1, 0), (0, 1), (n / 2, 0), (0, n / 2), (n / 3, n / 3), (n - 2, 1), (n, 0)] {
                let len = n - f - b;
                let mut ops = vec![IOp::Count, IOp::Last, IOp::Drop, IOp::FoldDrop, IOp::RfoldDrop, IOp::CloneDrop];
                let mut skips = vec![0, 1, 2, len / 2, len.saturating_sub(1), len, len + 1, 63, 64, 65];
                skips.retain(|&k| k <= len + 1);
                skips.sort();
                skips.dedup();
                for &k in &skips {
                    ops.push(IOp::Nth(k));
                    ops.push(IOp::NthBack(k));
                }
                for op in ops {
                    let pos = format!("N={n};origin={};f={f};b={b};op={}", if pre { "clone" } else { "fresh" }, op.name());
                    drive5(ctx, &format!("C05;iter;{pos};E=Tr4"), &|bm| iter_op::<N, Tr<0>>(pre, f, b, op, bm));
                }
            }
        }
        for kind in 0u8..2 {
            let kn = ["array", "boxed-array"][kind as usize];
            drive5(ctx, &format!("C05;drop-{kn};N={n};E=Tr4"), &|bm| drop_whole::<N, Tr<0>>(kind, bm));
        }
        for kind in [0u8, 1, 2, 6, 8] {
            let kn = ["map-owned", "zip-owned-owned", "fold-owned", "map-boxed", "zip-keep-left", "fold-boxed", "zip-owned-ref", "zip-owned-mut", "zip-ref-owned"][kind as usize];
            drive5(ctx, &format!("C05;{kn}-dropping-closure;N={n};E=Tr4"), &|bm| func_drop::<N, Tr<0>>(kind, bm));
        }
        for entry in [0u8, 2] {
            let en = ["try_from_iter", "from_iter", "try_boxed_from_iter"][entry as usize];
            for c in [n - 1, n + 1] {
                drive5(ctx, &format!("C05;collect-{en};N={n};c={c};E=Tr4"), &|bm| collect_err::<N, Tr<0>>(entry, c, bm));
            }
        }
    });
    // remove/swap_remove with an out-of-range index tear the array down *while unwinding*; by
    // language rule a destructor must not panic then (abort), so no single-destructor fault can be
    // injected there: their drop accounting is decided by C09, not here.
    let _ = remove_oob::<U1, Tr<0>>;
}
