//! C02 (borrowed views / exact-length reinterpretation / by-value conversions),
//! C10 (chunk regrouping) and C11 (flatten / unflatten): bounded exhaustive enumeration of
//! (length, source length, entry point, element type) on the real code, with pointer/length
//! oracles and canaried buffers.

use core::borrow::{Borrow, BorrowMut};
use generic_array::sequence::*;
use generic_array::typenum::*;
use generic_array::{ArrayLength, ConstArrayLength, GenericArray, IntoArrayLength, LengthError};
use std::panic::AssertUnwindSafe;
use vcommon::*;

mod c10;
mod c11;

pub type GA<T, N> = GenericArray<T, N>;

/// padded 4-byte element (u8, u16)
#[derive(Clone, Debug, PartialEq)]
pub struct P3(pub u8, pub u16);
impl Elem for P3 {
    const NAME: &'static str = "P3";
    const TRACKED: bool = false;
    const ZST: bool = false;
    fn make() -> Self {
        let v = <u32 as Elem>::make();
        P3(v as u8, (v.wrapping_mul(7)) as u16)
    }
    fn is_clone_of(&self, o: &Self) -> bool {
        self == o
    }
    fn ident(&self) -> u32 {
        self.0 as u32 | ((self.1 as u32) << 8)
    }
}
/// 16-byte, 16-aligned element
#[derive(Clone, Debug, PartialEq)]
#[repr(align(16))]
pub struct A16(pub u64, pub u64);
impl Elem for A16 {
    const NAME: &'static str = "A16";
    const TRACKED: bool = false;
    const ZST: bool = false;
    fn make() -> Self {
        let v = <u32 as Elem>::make() as u64;
        A16(v, !v)
    }
    fn is_clone_of(&self, o: &Self) -> bool {
        self == o
    }
    fn ident(&self) -> u32 {
        if self.1 != !self.0 {
            u32::MAX
        } else {
            self.0 as u32
        }
    }
}

pub fn ids_of<E: Elem>(s: &[E]) -> Vec<u32> {
    s.iter().map(|e| e.ident()).collect()
}

pub const CANARY: usize = 3;

/// A buffer of `l` elements surrounded by CANARY elements on each side.
pub fn canaried<E: Elem>(l: usize) -> (Vec<E>, Vec<u32>) {
    let v: Vec<E> = (0..l + 2 * CANARY).map(|_| E::make()).collect();
    let ids = ids_of(&v);
    (v, ids)
}

fn span<E>(s: &[E]) -> (usize, usize) {
    (s.as_ptr() as usize, s.len())
}

// ------------------------------------------------------------------------------------------ C02 gate

/// The same gate with the source being a WHOLE heap allocation of exactly `l` elements (no canaries around it): a view
/// that is created longer than the source - even transiently, even if never read - then reaches outside the allocation,
/// which is what the memory-monitor substrates (Miri, AddressSanitizer) can see. Value oracle: accepted iff l == N, at the
/// source's address.
fn gate_tight<E: Elem, N: ArrayLength>(entry: u8, l: usize) -> Result<CaseInfo, String> {
    let n = N::USIZE;
    let mut v: Vec<E> = Vec::with_capacity(l);
    for _ in 0..l {
        v.push(E::make());
    }
    let mut b: Box<[E]> = v.into_boxed_slice();
    let want = (b.as_ptr() as usize, n);
    let got: Option<(usize, usize)> = match entry {
        0 => match catch(|| span(GA::<E, N>::from_slice(&b[..]).as_slice())) {
            Ok(sp) => Some(sp),
            Err(PanicKind::Other(_)) => None,
            Err(e) => return Err(format!("unexpected panic {e:?}")),
        },
        1 => GA::<E, N>::try_from_slice(&b[..]).ok().map(|a| span(a.as_slice())),
        2 => <&GA<E, N>>::try_from(&b[..]).ok().map(|a| span(a.as_slice())),
        3 => match catch(AssertUnwindSafe(|| span(GA::<E, N>::from_mut_slice(&mut b[..]).as_mut_slice()))) {
            Ok(sp) => Some(sp),
            Err(PanicKind::Other(_)) => None,
            Err(e) => return Err(format!("unexpected panic {e:?}")),
        },
        4 => GA::<E, N>::try_from_mut_slice(&mut b[..]).ok().map(|a| span(a.as_mut_slice())),
        _ => <&mut GA<E, N>>::try_from(&mut b[..]).ok().map(|a| span(a.as_mut_slice())),
    };
    match (got, l == n) {
        (Some(sp), true) if sp == want => {}
        (Some(sp), true) => return Err(format!("accepted view is (addr {:#x}, len {}), the source is (addr {:#x}, len {})", sp.0, sp.1, want.0, want.1)),
        (Some(sp), false) => return Err(format!("a slice of length {l} was accepted as an array of N = {n} (view len {})", sp.1)),
        (None, true) => return Err(format!("a slice of exactly N = {n} elements was rejected")),
        (None, false) => {}
    }
    if l == n && n > 0 && entry >= 3 && !E::ZST {
        // a write through the accepted mutable view, then a read through the source
        let fresh = E::make();
        let fid = fresh.ident();
        GA::<E, N>::try_from_mut_slice(&mut b[..]).map_err(|_| "rejected on second call")?[n - 1] = fresh;
        if b[n - 1].ident() != fid {
            return Err("a write through the mutable view did not land in the source".into());
        }
    }
    drop(b);
    ledger::check_exact(&[], 0)?;
    Ok(CaseInfo::new(n > 0 || l > 0, if l == n { "tight-accepted" } else { "tight-rejected" }))
}

/// entry: 0 from_slice 1 try_from_slice 2 TryFrom<&[T]> 3 from_mut_slice 4 try_from_mut_slice 5 TryFrom<&mut [T]>
fn gate<E: Elem, N: ArrayLength>(entry: u8, l: usize) -> Result<CaseInfo, String> {
    let n = N::USIZE;
    let (mut buf, ids) = canaried::<E>(l);
    let want = (buf[CANARY..].as_ptr() as usize, n);
    // shared forms
    let verdict: Result<Option<(usize, usize)>, String> = match entry {
        0 => match catch(|| {
            let a: &GA<E, N> = GA::from_slice(&buf[CANARY..CANARY + l]);
            span(a.as_slice())
        }) {
            Ok(sp) => Ok(Some(sp)),
            // the property says "panic"; the wording of the message is not part of it
            Err(PanicKind::Other(_)) => Ok(None),
            Err(e) => Err(format!("unexpected panic {e:?}")),
        },
        1 => Ok(GA::<E, N>::try_from_slice(&buf[CANARY..CANARY + l]).ok().map(|a| span(a.as_slice()))),
        2 => {
            let r: Result<&GA<E, N>, LengthError> = <&GA<E, N>>::try_from(&buf[CANARY..CANARY + l]);
            Ok(r.ok().map(|a| span(a.as_slice())))
        }
        3 => match catch(AssertUnwindSafe(|| {
            let a: &mut GA<E, N> = GA::from_mut_slice(&mut buf[CANARY..CANARY + l]);
            span(a.as_mut_slice())
        })) {
            Ok(sp) => Ok(Some(sp)),
            Err(PanicKind::Other(_)) => Ok(None),
            Err(e) => Err(format!("unexpected panic {e:?}")),
        },
        4 => Ok(GA::<E, N>::try_from_mut_slice(&mut buf[CANARY..CANARY + l]).ok().map(|a| span(a.as_mut_slice()))),
        _ => {
            let r: Result<&mut GA<E, N>, LengthError> = <&mut GA<E, N>>::try_from(&mut buf[CANARY..CANARY + l]);
            Ok(r.ok().map(|a| span(a.as_mut_slice())))
        }
    };
    let got = verdict?;
    match (got, l == n) {
        (Some(sp), true) => {
            if sp != want {
                return Err(format!("accepted view is (addr {:#x}, len {}), source sub-slice is (addr {:#x}, len {})", sp.0, sp.1, want.0, want.1));
            }
        }
        (Some(sp), false) => return Err(format!("a slice of length {l} was accepted as an array of N = {n} (view len {})", sp.1)),
        (None, true) => return Err(format!("a slice of exactly N = {n} elements was rejected")),
        (None, false) => {}
    }
    // on acceptance: contents in order, and for the mutable forms a write lands in the source
    if l == n {
        let view_ids = match entry {
            0..=2 => ids_of(GA::<E, N>::try_from_slice(&buf[CANARY..CANARY + l]).map_err(|_| "rejected on second call")?.as_slice()),
            _ => {
                let a = GA::<E, N>::try_from_mut_slice(&mut buf[CANARY..CANARY + l]).map_err(|_| "rejected on second call")?;
                ids_of(a.as_slice())
            }
        };
        if view_ids[..] != ids[CANARY..CANARY + l] {
            return Err(format!("view lists {view_ids:?}, source holds {:?}", &ids[CANARY..CANARY + l]));
        }
        if entry >= 3 && n > 0 && !E::ZST {
            for i in [0, n / 2, n - 1] {
                let fresh = E::make();
                let fid = fresh.ident();
                {
                    let a: &mut GA<E, N> = match entry {
                        3 => GA::from_mut_slice(&mut buf[CANARY..CANARY + l]),
                        4 => GA::try_from_mut_slice(&mut buf[CANARY..CANARY + l]).unwrap(),
                        _ => <&mut GA<E, N>>::try_from(&mut buf[CANARY..CANARY + l]).unwrap(),
                    };
                    a[i] = fresh;
                }
                if buf[CANARY + i].ident() != fid {
                    return Err(format!("a write through the mutable view at index {i} did not land at source index {i}"));
                }
            }
        }
    }
    // canaries untouched
    let now = ids_of(&buf);
    if now[..CANARY] != ids[..CANARY] || now[CANARY + l..] != ids[CANARY + l..] {
        return Err("memory around the source slice changed".into());
    }
    Ok(CaseInfo::new(n > 0 || l > 0, if l == n { "accepted" } else if entry == 0 || entry == 3 { "panicked" } else { "length-error" }))
}

// ------------------------------------------------------------------------------------------ C02 view matrix

fn mkarr<E: Elem, const K: usize>() -> [E; K] {
    core::array::from_fn(|_| E::make())
}

fn shared_views<'a, E: Elem, const K: usize>(a: &'a GA<E, ConstArrayLength<K>>) -> Vec<(&'static str, &'a [E])>
where
    Const<K>: IntoArrayLength,
{
    let r1: &[E] = a.as_slice();
    let r2: &[E] = &**a;
    let r3: &[E] = AsRef::<[E]>::as_ref(a);
    let r4: &[E] = Borrow::<[E]>::borrow(a);
    let r5: &[E; K] = AsRef::<[E; K]>::as_ref(a);
    let r6: &[E] = a.into_iter().as_slice();
    let r7: &[E] = a.iter().as_slice();
    let r8: &[E] = GA::<E, ConstArrayLength<K>>::from_slice(a.as_slice()).as_slice();
    let r9: &[E] = unsafe { core::slice::from_raw_parts(a.as_ptr(), a.len()) };
    vec![
        ("as_slice", r1), ("Deref", r2), ("AsRef<[T]>", r3), ("Borrow<[T]>", r4), ("AsRef<[T;N]>", &r5[..]), ("&GA::into_iter", r6), ("iter()", r7),
        ("from_slice(as_slice())", r8), ("as_ptr/len", r9),
    ]
}

const MUT_VIEWS: &[&str] = &["as_mut_slice", "DerefMut", "AsMut<[T]>", "BorrowMut<[T]>", "AsMut<[T;N]>", "&mut GA::into_iter", "from_mut_slice", "iter_mut"];

fn write_via<E: Elem, const K: usize>(a: &mut GA<E, ConstArrayLength<K>>, view: usize, i: usize, v: E)
where
    Const<K>: IntoArrayLength,
{
    match view {
        0 => a.as_mut_slice()[i] = v,
        1 => (&mut **a)[i] = v,
        2 => AsMut::<[E]>::as_mut(a)[i] = v,
        3 => BorrowMut::<[E]>::borrow_mut(a)[i] = v,
        4 => AsMut::<[E; K]>::as_mut(a)[i] = v,
        5 => *a.into_iter().nth(i).unwrap() = v,
        6 => GA::<E, ConstArrayLength<K>>::from_mut_slice(a.as_mut_slice())[i] = v,
        _ => *a.iter_mut().nth(i).unwrap() = v,
    }
}

/// (address, length) of mutable view number `view`
fn mut_span<E: Elem, const K: usize>(a: &mut GA<E, ConstArrayLength<K>>, view: usize) -> (usize, usize)
where
    Const<K>: IntoArrayLength,
{
    match view {
        0 => span(a.as_mut_slice()),
        1 => span(&mut **a),
        2 => span(AsMut::<[E]>::as_mut(a)),
        3 => span(BorrowMut::<[E]>::borrow_mut(a)),
        4 => span(&AsMut::<[E; K]>::as_mut(a)[..]),
        5 => span(a.into_iter().into_slice()),
        6 => span(GA::<E, ConstArrayLength<K>>::from_mut_slice(a.as_mut_slice()).as_slice()),
        _ => span(a.iter_mut().into_slice()),
    }
}

fn view_matrix<E: Elem, const K: usize>() -> Result<CaseInfo, String>
where
    Const<K>: IntoArrayLength,
{
    let mut a: GA<E, ConstArrayLength<K>> = GA::from_array(mkarr::<E, K>());
    let base = &a as *const _ as usize;
    let mut ids = ids_of(a.as_slice());
    if core::mem::size_of_val(&a) != K * core::mem::size_of::<E>() {
        return Err("size_of_val(array) != N * size_of::<T>()".into());
    }
    for (name, v) in shared_views::<E, K>(&a) {
        if span(v) != (base, K) {
            return Err(format!("{name}: view is (addr {:#x}, len {}), array is (addr {:#x}, len {K})", v.as_ptr() as usize, v.len(), base));
        }
        if ids_of(v) != ids {
            return Err(format!("{name}: lists {:?}, array holds {ids:?}", ids_of(v)));
        }
    }
    let mut writes = 0;
    for view in 0..MUT_VIEWS.len() {
        // a mutable view starts at the array's address too (for zero-sized elements this is the only observable)
        let sp = mut_span::<E, K>(&mut a, view);
        if sp != (base, K) {
            return Err(format!("{}: view is (addr {:#x}, len {}), array is (addr {base:#x}, len {K})", MUT_VIEWS[view], sp.0, sp.1));
        }
        let idxs: Vec<usize> = if K <= 13 { (0..K).collect() } else { vec![0, 1, K / 2, K - 2, K - 1] };
        for i in idxs {
            let fresh = E::make();
            ids[i] = fresh.ident();
            write_via::<E, K>(&mut a, view, i, fresh);
            writes += 1;
            for (name, v) in shared_views::<E, K>(&a) {
                if ids_of(v) != ids {
                    return Err(format!("after writing index {i} through {}: {name} lists {:?}, expected {ids:?}", MUT_VIEWS[view], ids_of(v)));
                }
            }
        }
    }
    // From<&[T; N]> / From<&mut [T; N]>: views of a native array
    let mut native: [E; K] = mkarr::<E, K>();
    let nbase = native.as_ptr() as usize;
    let nids = ids_of(&native);
    {
        let g: &GA<E, ConstArrayLength<K>> = (&native).into();
        if span(g.as_slice()) != (nbase, K) || ids_of(g) != nids {
            return Err("From<&[T; N]>: view does not alias the native array".into());
        }
    }
    if K > 0 {
        let fresh = E::make();
        let fid = fresh.ident();
        {
            let g: &mut GA<E, ConstArrayLength<K>> = (&mut native).into();
            if span(g.as_slice()) != (nbase, K) {
                return Err("From<&mut [T; N]>: view does not alias the native array".into());
            }
            g[K - 1] = fresh;
        }
        if native[K - 1].ident() != fid && !E::ZST {
            return Err("From<&mut [T; N]>: write through the view did not reach the native array".into());
        }
    }
    drop(native);
    drop(a);
    ledger::check_exact(&[], 0)?;
    Ok(CaseInfo::new(K > 0, format!("views-agree:{}", if writes > 0 { "written" } else { "empty" })))
}

fn by_value<E: Elem, const K: usize>() -> Result<CaseInfo, String>
where
    Const<K>: IntoArrayLength,
{
    let arr = mkarr::<E, K>();
    let ids = ids_of(&arr);
    let g: GA<E, ConstArrayLength<K>> = GA::from_array(arr);
    if ids_of(&g) != ids {
        return Err(format!("from_array: {:?} != {ids:?}", ids_of(&g)));
    }
    let back: [E; K] = g.into_array();
    if ids_of(&back) != ids {
        return Err("into_array moved elements".into());
    }
    let g2: GA<E, ConstArrayLength<K>> = back.into();
    if ids_of(&g2) != ids {
        return Err("From<[T; N]> moved elements".into());
    }
    let back2: [E; K] = g2.into();
    if ids_of(&back2) != ids {
        return Err("From<GenericArray> for [T; N] moved elements".into());
    }
    let (live, z) = E::live_of(&ids);
    ledger::check_exact(&live, z).map_err(|e| format!("after four by-value conversions: {e}"))?;
    drop(back2);
    ledger::check_exact(&[], 0)?;
    Ok(CaseInfo::new(K > 0, "by-value-identity"))
}

macro_rules! tuple_case {
    ($ctx:expr, $E:ty, $n:literal, $U:ty, ($($v:ident),*)) => {
        $ctx.case(&format!("C02;tuple;N={};E={}", $n, <$E as Elem>::NAME), || {
            $( let $v = <$E as Elem>::make(); )*
            let ids: Vec<u32> = vec![$( $v.ident() ),*];
            let g: GA<$E, $U> = ($($v,)*).into();
            if ids_of(&g) != ids { return Err(format!("From<tuple>: {:?} != {ids:?}", ids_of(&g))); }
            let ($($v,)*) : ($( tuple_case!(@t $v $E), )*) = g.into();
            let back: Vec<u32> = vec![$( $v.ident() ),*];
            if back != ids { return Err(format!("From<GenericArray> for tuple: {back:?} != {ids:?}")); }
            let (live, z) = <$E as Elem>::live_of(&ids);
            ledger::check_exact(&live, z)?;
            $( drop($v); )*
            ledger::check_exact(&[], 0)?;
            Ok(CaseInfo::new(true, "tuple-identity"))
        });
    };
    (@t $v:ident $E:ty) => { $E };
}

macro_rules! tuples {
    ($ctx:expr, $E:ty) => {
        tuple_case!($ctx, $E, 1, U1, (a));
        tuple_case!($ctx, $E, 2, U2, (a, b));
        tuple_case!($ctx, $E, 3, U3, (a, b, c));
        tuple_case!($ctx, $E, 4, U4, (a, b, c, d));
        tuple_case!($ctx, $E, 5, U5, (a, b, c, d, e));
        tuple_case!($ctx, $E, 6, U6, (a, b, c, d, e, f));
        tuple_case!($ctx, $E, 7, U7, (a, b, c, d, e, f, g));
        tuple_case!($ctx, $E, 8, U8, (a, b, c, d, e, f, g, h));
        tuple_case!($ctx, $E, 9, U9, (a, b, c, d, e, f, g, h, i));
        tuple_case!($ctx, $E, 10, U10, (a, b, c, d, e, f, g, h, i, j));
        tuple_case!($ctx, $E, 11, U11, (a, b, c, d, e, f, g, h, i, j, k));
        tuple_case!($ctx, $E, 12, U12, (a, b, c, d, e, f, g, h, i, j, k, l));
    };
}

macro_rules! for_ks {
    ([$($k:literal),*], $K:ident => $body:block) => { $( { const $K: usize = $k; if $k <= crate::maxn() { $body } } )* };
}
macro_rules! for_es {
    ([$($e:ty),*], $E:ident => $body:block) => { $( { type $E = $e; $body } )* };
}

// NOTE: the per-(E, K) case lists are generic functions and the macros expand to plain calls: thousands of closures expanded
// inline into one function make MIR building / borrow checking take most of a minute, which every Miri invocation pays again.
fn c02_cases<E: Elem, const K: usize>(ctx: &mut Ctx)
where
    Const<K>: IntoArrayLength,
{
    type N<const K: usize> = ConstArrayLength<K>;
    let ls: Vec<usize> = if K <= 13 { (0..=K + 2).collect() } else { let mut v = vec![0, 1, K - 1, K, K + 1, 2 * K]; v.sort(); v.dedup(); v };
    for entry in 0u8..6 {
        let en = ["from_slice", "try_from_slice", "TryFrom<&[T]>", "from_mut_slice", "try_from_mut_slice", "TryFrom<&mut [T]>"][entry as usize];
        for &l in &ls {
            ctx.case(&format!("C02;gate;{en};N={K};L={l};E={}", E::NAME), || gate::<E, N<K>>(entry, l));
            ctx.case(&format!("C02;gate-tight;{en};N={K};L={l};E={}", E::NAME), || gate_tight::<E, N<K>>(entry, l));
        }
    }
    ctx.case(&format!("C02;views;N={K};E={}", E::NAME), || view_matrix::<E, K>());
    if K <= 33 || K == 100 || K == 1024 {
        ctx.case(&format!("C02;by-value;N={K};E={}", E::NAME), || by_value::<E, K>());
    }
}

fn run_c02(ctx: &mut Ctx) {
    for_ks!([0, 1, 2, 3, 4, 5, 6, 7, 8, 9, 10, 11, 12, 13, 15, 16, 17, 31, 32, 33, 64, 100, 255, 256, 1000, 1024], K => {
        for_es!([u8, u64, (), Tr<0>, TrZ, A16, P3, B3, A64, TrA], E => {
            c02_cases::<E, K>(ctx);
        });
    });
    if maxn() >= 12 {
        tuples!(ctx, Tr<0>);
        tuples!(ctx, TrZ);
        tuples!(ctx, u64);
        tuples!(ctx, Tr<5>);
        tuples!(ctx, B3);
        tuples!(ctx, TrA);
    }
}

static MAXN: std::sync::atomic::AtomicUsize = std::sync::atomic::AtomicUsize::new(usize::MAX);
/// reduced-bound runs (Miri substrate): lengths above --maxn are skipped
pub fn maxn() -> usize {
    MAXN.load(std::sync::atomic::Ordering::Relaxed)
}

fn main() {
    let mut ctx = Ctx::from_args();
    if ctx.only.is_none() {
        if let Some(m) = ctx.extra.get("maxn").and_then(|s| s.parse::<usize>().ok()) {
            MAXN.store(m, std::sync::atomic::Ordering::Relaxed);
        }
    }
    match ctx.mode.as_str() {
        "C02" => run_c02(&mut ctx),
        "C10" => c10::run(&mut ctx),
        "C11" => c11::run(&mut ctx),
        m => {
            eprintln!("unknown mode {m}");
            std::process::exit(2)
        }
    }
    ctx.finish(json!({}));
}

#[allow(unused)]
fn _u(_: &dyn Fn() -> U0) {
    let _ = <GA<u8, U1> as Lengthen<u8>>::append;
}
