//! C10 — chunk regrouping partitions a slice exactly, without copying.

use super::*;

fn chunks<E: Elem, N: ArrayLength>(mutable: bool, l: usize) -> Result<CaseInfo, String> {
    let n = N::USIZE;
    let sz = core::mem::size_of::<E>();
    let (mut buf, ids) = canaried::<E>(l);
    let src = buf[CANARY..].as_ptr() as usize;
    let r = if mutable {
        catch(AssertUnwindSafe(|| {
            let (c, r) = GA::<E, N>::chunks_from_slice_mut(&mut buf[CANARY..CANARY + l]);
            ((c.as_ptr() as usize, c.len()), (r.as_ptr() as usize, r.len()))
        }))
    } else {
        catch(|| {
            let (c, r) = GA::<E, N>::chunks_from_slice(&buf[CANARY..CANARY + l]);
            ((c.as_ptr() as usize, c.len()), (r.as_ptr() as usize, r.len()))
        })
    };
    if n == 0 {
        return match (r, l) {
            (Ok((c, r)), 0) if c.1 == 0 && r.1 == 0 => Ok(CaseInfo::new(false, "n0-empty")),
            (Ok(x), 0) => Err(format!("N = 0, empty slice: got {x:?}")),
            (Err(PanicKind::Other(_)), _) if l > 0 => Ok(CaseInfo::new(true, "n0-panics")),
            (other, _) => Err(format!("N = 0, slice of {l}: expected the documented panic, got {other:?}")),
        };
    }
    let (c, rem) = r.map_err(|e| format!("unexpected panic {e:?}"))?;
    let want_c = (src, l / n);
    let want_r = (src + (l / n) * n * sz, l % n);
    // where an EMPTY part points is not pinned ("same memory ... nothing beyond the end" speaks about the elements a part
    // holds; the crate itself hands out free-standing empties for N = 0)
    let same_part = |got: (usize, usize), want: (usize, usize)| got.1 == want.1 && (want.1 == 0 || got.0 == want.0);
    if !same_part(c, want_c) {
        return Err(format!("chunk part is (addr +{}, len {}), expected (addr +0, len {})", c.0.wrapping_sub(src), c.1, want_c.1));
    }
    if !same_part(rem, want_r) {
        return Err(format!("remainder is (addr +{}, len {}), expected (addr +{}, len {})", rem.0.wrapping_sub(src), rem.1, want_r.0 - src, want_r.1));
    }
    // contents, element by element, through the returned parts
    {
        let (cs, rs) = GA::<E, N>::chunks_from_slice(&buf[CANARY..CANARY + l]);
        for (ci, ch) in cs.iter().enumerate() {
            for (j, e) in ch.iter().enumerate() {
                if e.ident() != ids[CANARY + ci * n + j] {
                    return Err(format!("chunk {ci} element {j} is not source element {}", ci * n + j));
                }
            }
        }
        for (j, e) in rs.iter().enumerate() {
            if e.ident() != ids[CANARY + cs.len() * n + j] {
                return Err(format!("remainder element {j} is not source element {}", cs.len() * n + j));
            }
        }
        // inverse
        let flat = GA::<E, N>::slice_from_chunks(cs);
        if !same_part(span_of(flat), (src, cs.len() * n)) {
            return Err(format!("slice_from_chunks gives (addr +{}, len {}), expected (+0, {})", (flat.as_ptr() as usize).wrapping_sub(src), flat.len(), cs.len() * n));
        }
    }
    if mutable && !E::ZST {
        // a write through each part lands at that index of the source
        let mut targets: Vec<usize> = vec![];
        if l / n > 0 {
            targets.extend([0, (l / n) * n - 1]);
        }
        if l % n > 0 {
            targets.extend([(l / n) * n, l - 1]);
        }
        targets.dedup();
        for t in targets {
            let fresh = E::make();
            let fid = fresh.ident();
            {
                let (cs, rs) = GA::<E, N>::chunks_from_slice_mut(&mut buf[CANARY..CANARY + l]);
                if t < cs.len() * n {
                    cs[t / n][t % n] = fresh;
                } else {
                    let k = cs.len() * n;
                    rs[t - k] = fresh;
                }
            }
            if buf[CANARY + t].ident() != fid {
                return Err(format!("a write at regrouped index {t} did not land at source index {t}"));
            }
            let (cs, _) = GA::<E, N>::chunks_from_slice_mut(&mut buf[CANARY..CANARY + l]);
            let k = cs.len();
            let flat = GA::<E, N>::slice_from_chunks_mut(cs);
            if span_of(flat).1 != k * n || (k * n > 0 && span_of(flat).0 != src) {
                return Err("slice_from_chunks_mut does not cover the chunk part".into());
            }
        }
    }
    let now = ids_of(&buf);
    if now[..CANARY] != ids[..CANARY] || now[CANARY + l..] != ids[CANARY + l..] {
        return Err("memory around the source slice changed".into());
    }
    Ok(CaseInfo::new(l > 0, format!("{}:{}", if l / n > 0 { "chunks" } else { "no-chunks" }, if l % n > 0 { "rem" } else { "no-rem" })))
}

/// The source is a WHOLE heap allocation of exactly `l` elements: any reference or slice the functions create beyond the
/// source - even a transient one that is never read - is outside the allocation, where the memory monitors can see it.
fn chunks_tight<E: Elem, N: ArrayLength>(mutable: bool, l: usize) -> Result<CaseInfo, String> {
    let n = N::USIZE;
    if n == 0 {
        return Ok(CaseInfo::new(false, "tight-n0"));
    }
    let mut b: Box<[E]> = (0..l).map(|_| E::make()).collect::<Vec<E>>().into_boxed_slice();
    let ids = ids_of(&b);
    let src = b.as_ptr() as usize;
    let sz = core::mem::size_of::<E>();
    if mutable {
        let (c, r) = GA::<E, N>::chunks_from_slice_mut(&mut b[..]);
        if c.len() != l / n || r.len() != l % n || (c.len() > 0 && c.as_ptr() as usize != src) || (r.len() > 0 && r.as_ptr() as usize != src + (l / n) * n * sz) {
            return Err(format!("chunks_from_slice_mut of a whole allocation of {l}: {} chunks, remainder {}", c.len(), r.len()));
        }
        // write through every part (first and last element of each), and through the re-flattened chunk part
        if !E::ZST {
            if let Some(x) = r.last_mut() {
                *x = E::make();
            }
            if let Some(x) = r.first_mut() {
                *x = E::make();
            }
            if let Some(ch) = c.last_mut() {
                ch[n - 1] = E::make();
            }
            if let Some(ch) = c.first_mut() {
                ch[0] = E::make();
            }
            let flat = GA::<E, N>::slice_from_chunks_mut(c);
            if let Some(x) = flat.last_mut() {
                *x = E::make();
            }
        }
    } else {
        let (c, r) = GA::<E, N>::chunks_from_slice(&b[..]);
        if c.len() != l / n || r.len() != l % n {
            return Err(format!("chunks_from_slice of a whole allocation of {l}: {} chunks, remainder {}", c.len(), r.len()));
        }
        let mut seen = Vec::new();
        for ch in c {
            seen.extend(ids_of(ch));
        }
        seen.extend(ids_of(r));
        if seen != ids {
            return Err("chunks and remainder do not list the source's elements in order".into());
        }
        let flat = GA::<E, N>::slice_from_chunks(c);
        if flat.len() != (l / n) * n {
            return Err("slice_from_chunks: wrong length".into());
        }
    }
    drop(b);
    ledger::check_exact(&[], 0)?;
    Ok(CaseInfo::new(l > 0, "tight"))
}

/// slices longer than u32::MAX cost nothing for zero-sized elements: lengths only (no element is touched)
fn chunks_huge_zst<N: ArrayLength>(mutable: bool, l: usize) -> Result<CaseInfo, String> {
    let n = N::USIZE;
    let mut backing: [(); 0] = [];
    let (c, r) = if mutable {
        let s: &mut [()] = unsafe { core::slice::from_raw_parts_mut(backing.as_mut_ptr(), l) };
        let (c, r) = GA::<(), N>::chunks_from_slice_mut(s);
        let cl = c.len();
        let fl = GA::<(), N>::slice_from_chunks_mut(c).len();
        if fl != cl * n {
            return Err(format!("slice_from_chunks_mut of {cl} chunks has {fl} elements"));
        }
        (cl, r.len())
    } else {
        let s: &[()] = unsafe { core::slice::from_raw_parts(backing.as_ptr(), l) };
        let (c, r) = GA::<(), N>::chunks_from_slice(s);
        let fl = GA::<(), N>::slice_from_chunks(c).len();
        if fl != c.len() * n {
            return Err(format!("slice_from_chunks of {} chunks has {fl} elements", c.len()));
        }
        (c.len(), r.len())
    };
    if (c, r) != (l / n, l % n) {
        return Err(format!("L = {l}, N = {n}: got {c} chunks and a remainder of {r}, expected {} and {}", l / n, l % n));
    }
    Ok(CaseInfo::new(true, "huge-zst"))
}

fn span_of<E>(s: &[E]) -> (usize, usize) {
    (s.as_ptr() as usize, s.len())
}

/// from_chunks / into_chunks (+ _mut): slices of [T; K] and of GenericArray<T, N> are the same memory
fn native_chunks<E: Elem, const K: usize>(count: usize) -> Result<CaseInfo, String>
where
    Const<K>: IntoArrayLength,
{
    type N<const K: usize> = ConstArrayLength<K>;
    let mut v: Vec<[E; K]> = (0..count).map(|_| core::array::from_fn(|_| E::make())).collect();
    let ids: Vec<u32> = v.iter().flat_map(|c| c.iter().map(|e| e.ident())).collect();
    let base = v.as_ptr() as usize;
    {
        let g: &[GA<E, N<K>>] = GA::<E, N<K>>::from_chunks(&v);
        if (g.as_ptr() as usize, g.len()) != (base, count) {
            return Err(format!("from_chunks gives (addr +{}, len {}), expected (+0, {count})", (g.as_ptr() as usize).wrapping_sub(base), g.len()));
        }
        let got: Vec<u32> = g.iter().flat_map(|c| c.iter().map(|e| e.ident())).collect();
        if got != ids {
            return Err("from_chunks reorders elements".into());
        }
        let back: &[[E; K]] = GA::<E, N<K>>::into_chunks(g);
        if (back.as_ptr() as usize, back.len()) != (base, count) {
            return Err(format!("into_chunks gives (addr +{}, len {}), expected (+0, {count})", (back.as_ptr() as usize).wrapping_sub(base), back.len()));
        }
        // slice_from_chunks on a chunk slice that did not come out of chunks_from_slice (the only way to have chunks of length 0)
        let flat: &[E] = GA::<E, N<K>>::slice_from_chunks(g);
        if (flat.as_ptr() as usize, flat.len()) != (base, count * K) {
            return Err(format!("slice_from_chunks of {count} arrays of length {K} gives (addr +{}, len {}), expected (+0, {})", (flat.as_ptr() as usize).wrapping_sub(base), flat.len(), count * K));
        }
        if ids_of(flat) != ids {
            return Err("slice_from_chunks reorders elements".into());
        }
    }
    {
        let g: &mut [GA<E, N<K>>] = GA::<E, N<K>>::from_chunks_mut(&mut v);
        let flat: &mut [E] = GA::<E, N<K>>::slice_from_chunks_mut(g);
        if (flat.as_ptr() as usize, flat.len()) != (base, count * K) {
            return Err(format!("slice_from_chunks_mut of {count} arrays of length {K} gives (addr +{}, len {}), expected (+0, {})", (flat.as_ptr() as usize).wrapping_sub(base), flat.len(), count * K));
        }
    }
    {
        let g: &mut [GA<E, N<K>>] = GA::<E, N<K>>::from_chunks_mut(&mut v);
        if (g.as_ptr() as usize, g.len()) != (base, count) {
            return Err("from_chunks_mut does not alias its source".into());
        }
        if count > 0 && K > 0 {
            g[count - 1][K - 1] = E::make();
        }
        let back: &mut [[E; K]] = GA::<E, N<K>>::into_chunks_mut(g);
        if (back.as_ptr() as usize, back.len()) != (base, count) {
            return Err("into_chunks_mut does not alias its source".into());
        }
    }
    if count > 0 && K > 0 && !E::ZST && v[count - 1][K - 1].ident() == ids[ids.len() - 1] {
        return Err("write through from_chunks_mut did not reach the source".into());
    }
    drop(v);
    ledger::check_exact(&[], 0)?;
    Ok(CaseInfo::new(count > 0, "native-chunks"))
}

macro_rules! for_ks {
    ([$($k:literal),*], $K:ident => $body:block) => { $( { const $K: usize = $k; if $k <= crate::maxn() { $body } } )* };
}
macro_rules! for_es {
    ([$($e:ty),*], $E:ident => $body:block) => { $( { type $E = $e; $body } )* };
}

fn c10_cases<E: Elem, const K: usize>(ctx: &mut Ctx)
where
    Const<K>: IntoArrayLength,
{
    type N<const K: usize> = ConstArrayLength<K>;
    let ls: Vec<usize> = if K < 100 { (0..=4 * K + 3).collect() } else {
        let mut v = vec![0, 1, K - 1, K, K + 1, 2 * K - 1, 2 * K, 2 * K + 1, 4 * K + 3]; v.sort(); v.dedup(); v };
    for &l in &ls {
        for mutable in [false, true] {
            ctx.case(&format!("C10;chunks_from_slice{};N={K};L={l};E={}", if mutable { "_mut" } else { "" }, E::NAME), || chunks::<E, N<K>>(mutable, l));
            ctx.case(&format!("C10;tight;chunks_from_slice{};N={K};L={l};E={}", if mutable { "_mut" } else { "" }, E::NAME), || chunks_tight::<E, N<K>>(mutable, l));
        }
    }
    if E::NAME == "unit" && K > 0 {
        for &l in &[u32::MAX as usize - 1, u32::MAX as usize, u32::MAX as usize + 1, (1usize << 32) + 7, (1usize << 33) + 1, (1usize << 40) + K + 1, isize::MAX as usize] {
            for mutable in [false, true] {
                ctx.case(&format!("C10;huge-zst{};N={K};L={l}", if mutable { "_mut" } else { "" }), || chunks_huge_zst::<N<K>>(mutable, l));
            }
        }
    }
    for count in 0..=5usize {
        ctx.case(&format!("C10;from/into_chunks;N={K};count={count};E={}", E::NAME), || native_chunks::<E, K>(count));
    }
}

pub fn run(ctx: &mut Ctx) {
    for_ks!([0, 1, 2, 3, 7, 8, 16, 17, 33, 64, 100, 1024], K => {
        for_es!([u8, P3, u64, (), A16, Tr<0>, B3, A64], E => {
            c10_cases::<E, K>(ctx);
        });
    });
}
