//! C11 — flatten / unflatten regroup in row-major order over the same storage.

use super::*;
use core::ops::{Div, Mul};

fn mk_nested<E: Elem, N: ArrayLength, M: ArrayLength>() -> GA<GA<E, N>, M> {
    let mut outer = GA::<GA<E, N>, M>::uninit();
    for o in outer.iter_mut() {
        let mut inner = GA::<E, N>::uninit();
        for s in inner.iter_mut() {
            s.write(E::make());
        }
        o.write(unsafe { GA::assume_init(inner) });
    }
    unsafe { GA::assume_init(outer) }
}

fn nested_ids<E: Elem, N: ArrayLength, M: ArrayLength>(a: &GA<GA<E, N>, M>) -> Vec<u32> {
    a.iter().flat_map(|r| r.iter().map(|e| e.ident())).collect()
}

/// form: 0 owned, 1 shared, 2 mutable
fn flat<E: Elem, N, M>(form: u8) -> Result<CaseInfo, String>
where
    N: ArrayLength + Mul<M>,
    M: ArrayLength,
    Prod<N, M>: ArrayLength,
{
    let (n, m) = (N::USIZE, M::USIZE);
    if <Prod<N, M>>::USIZE != n * m {
        return Err(format!("type-level product is {} for {n} x {m}", <Prod<N, M>>::USIZE));
    }
    let mut nested = mk_nested::<E, N, M>();
    let ids = nested_ids(&nested);
    let base = &nested as *const _ as usize;
    match form {
        0 => {
            let f: GA<E, Prod<N, M>> = nested.flatten();
            // flat[i*N + j] is inner[i][j]: ids were created in row-major order
            if ids_of(&f) != ids {
                return Err(format!("flatten gives {:?}, row-major order is {ids:?}", ids_of(&f)));
            }
            let (live, z) = E::live_of(&ids);
            ledger::check_exact(&live, z).map_err(|e| format!("flatten is a pure move, but: {e}"))?;
            drop(f);
        }
        1 => {
            let f: &GA<E, Prod<N, M>> = (&nested).flatten();
            if (f.as_ptr() as usize, f.len()) != (base, n * m) || core::mem::size_of_val(f) != core::mem::size_of_val(&nested) {
                return Err(format!("&flatten view is (addr {:#x}, len {}), original is (addr {base:#x}, {} elements)", f.as_ptr() as usize, f.len(), n * m));
            }
            if ids_of(f) != ids {
                return Err("&flatten view is not in row-major order".into());
            }
            drop(nested);
        }
        _ => {
            let idxs: Vec<usize> = if n * m <= 36 { (0..n * m).collect() } else { let mut v: Vec<usize> = [0, n - 1, n, n * m / 2, n * m - 1].into_iter().filter(|&k| k < n * m).collect(); v.sort(); v.dedup(); v };
            {
                // also for an empty view (no index to write through): same address, same extent
                let f: &mut GA<E, Prod<N, M>> = (&mut nested).flatten();
                if (f.as_ptr() as usize, f.len(), core::mem::size_of_val(f)) != (base, n * m, core::mem::size_of::<GA<GA<E, N>, M>>()) {
                    return Err(format!("&mut flatten view is (addr {:#x}, len {}), original is (addr {base:#x}, {} elements)", f.as_ptr() as usize, f.len(), n * m));
                }
            }
            for k in idxs {
                let fresh = E::make();
                let fid = fresh.ident();
                {
                    let f: &mut GA<E, Prod<N, M>> = (&mut nested).flatten();
                    if (f.as_ptr() as usize, f.len()) != (base, n * m) {
                        return Err("&mut flatten view does not alias the original".into());
                    }
                    f[k] = fresh;
                }
                if !E::ZST && nested[k / n][k % n].ident() != fid {
                    return Err(format!("write at flat index {k} did not appear at [{}][{}]", k / n, k % n));
                }
            }
            drop(nested);
        }
    }
    ledger::check_exact(&[], 0)?;
    Ok(CaseInfo::new(n * m > 0, format!("flatten-{}", ["owned", "ref", "mut"][form as usize])))
}

fn unflat<E: Elem, N, M>(form: u8) -> Result<CaseInfo, String>
where
    N: ArrayLength + Mul<M>,
    M: ArrayLength,
    Prod<N, M>: ArrayLength + Div<N, Output = M>,
{
    let (n, m) = (N::USIZE, M::USIZE);
    let mut flat: GA<E, Prod<N, M>> = {
        let mut a = GA::<E, Prod<N, M>>::uninit();
        for s in a.iter_mut() {
            s.write(E::make());
        }
        unsafe { GA::assume_init(a) }
    };
    let ids = ids_of(&flat);
    let base = &flat as *const _ as usize;
    match form {
        0 => {
            let u: GA<GA<E, N>, M> = flat.unflatten();
            if nested_ids(&u) != ids {
                return Err(format!("unflatten gives {:?}, expected row-major {ids:?}", nested_ids(&u)));
            }
            let (live, z) = E::live_of(&ids);
            ledger::check_exact(&live, z).map_err(|e| format!("unflatten is a pure move, but: {e}"))?;
            // exact inverse
            let back: GA<E, Prod<N, M>> = u.flatten();
            if ids_of(&back) != ids {
                return Err("flatten(unflatten(x)) != x".into());
            }
            drop(back);
        }
        1 => {
            let u: &GA<GA<E, N>, M> = (&flat).unflatten();
            if (u.as_ptr() as usize, u.len()) != (base, m) || core::mem::size_of_val(u) != core::mem::size_of_val(&flat) {
                return Err(format!("&unflatten view is (addr {:#x}, len {}), expected (addr {base:#x}, len {m})", u.as_ptr() as usize, u.len()));
            }
            if nested_ids(u) != ids {
                return Err("&unflatten view is not in row-major order".into());
            }
            drop(flat);
        }
        _ => {
            let idxs: Vec<usize> = if n * m <= 36 { (0..n * m).collect() } else { let mut v: Vec<usize> = [0, n - 1, n, n * m / 2, n * m - 1].into_iter().filter(|&k| k < n * m).collect(); v.sort(); v.dedup(); v };
            {
                // also for an empty view (no index to write through): same address, same extent
                let u: &mut GA<GA<E, N>, M> = (&mut flat).unflatten();
                if (u.as_ptr() as usize, u.len(), core::mem::size_of_val(u)) != (base, m, core::mem::size_of::<GA<E, Prod<N, M>>>()) {
                    return Err(format!("&mut unflatten view is (addr {:#x}, len {}), expected (addr {base:#x}, len {m})", u.as_ptr() as usize, u.len()));
                }
            }
            for k in idxs {
                let fresh = E::make();
                let fid = fresh.ident();
                {
                    let u: &mut GA<GA<E, N>, M> = (&mut flat).unflatten();
                    if (u.as_ptr() as usize, u.len()) != (base, m) {
                        return Err("&mut unflatten view does not alias the original".into());
                    }
                    u[k / n][k % n] = fresh;
                }
                if !E::ZST && flat[k].ident() != fid {
                    return Err(format!("write at [{}][{}] did not appear at flat index {k}", k / n, k % n));
                }
            }
            drop(flat);
        }
    }
    ledger::check_exact(&[], 0)?;
    Ok(CaseInfo::new(n * m > 0, format!("unflatten-{}", ["owned", "ref", "mut"][form as usize])))
}

// NOTE: generic functions, called from the macros (see the note in main.rs on MIR building time)
fn flat_cases<E: Elem, N, M>(ctx: &mut Ctx)
where
    N: ArrayLength + Mul<M>,
    M: ArrayLength,
    Prod<N, M>: ArrayLength,
{
    for form in 0u8..3 {
        let fname = ["owned", "ref", "mut"][form as usize];
        ctx.case(&format!("C11;flatten-{fname};N={};M={};E={}", N::USIZE, M::USIZE, E::NAME), || flat::<E, N, M>(form));
    }
}
fn unflat_cases<E: Elem, N, M>(ctx: &mut Ctx)
where
    N: ArrayLength + Mul<M>,
    M: ArrayLength,
    Prod<N, M>: ArrayLength + Div<N, Output = M>,
{
    for form in 0u8..3 {
        let fname = ["owned", "ref", "mut"][form as usize];
        ctx.case(&format!("C11;unflatten-{fname};N={};M={};E={}", N::USIZE, M::USIZE, E::NAME), || unflat::<E, N, M>(form));
    }
}

macro_rules! pair {
    ($ctx:expr, $n:ty, $m:ty) => { if <$n>::USIZE.max(<$m>::USIZE) <= crate::maxn() {
        flat_cases::<Tr<0>, $n, $m>($ctx);
        flat_cases::<TrZ, $n, $m>($ctx);
        flat_cases::<u8, $n, $m>($ctx);
        flat_cases::<u64, $n, $m>($ctx);
        flat_cases::<B3, $n, $m>($ctx);
        // (the over-aligned 32- and 64-byte elements only up to 1024 elements: larger by-value arrays of them overflow the
        // stack of an unoptimised build - a limit of the harness, not of the crate)
        if <$n>::USIZE * <$m>::USIZE <= 1024 {
            flat_cases::<A64, $n, $m>($ctx);
            flat_cases::<TrA, $n, $m>($ctx);
        }
    } };
}
macro_rules! upair {
    ($ctx:expr, $n:ty, $m:ty) => { if <$n>::USIZE.max(<$m>::USIZE) <= crate::maxn() {
        unflat_cases::<Tr<0>, $n, $m>($ctx);
        unflat_cases::<TrZ, $n, $m>($ctx);
        unflat_cases::<u8, $n, $m>($ctx);
        unflat_cases::<u64, $n, $m>($ctx);
        unflat_cases::<B3, $n, $m>($ctx);
        if <$n>::USIZE * <$m>::USIZE <= 1024 {
            unflat_cases::<A64, $n, $m>($ctx);
            unflat_cases::<TrA, $n, $m>($ctx);
        }
    } };
}
macro_rules! grid {
    ($mac:ident, $ctx:expr, [$($n:ty),*], $ms:tt) => { $( grid!(@row $mac, $ctx, $n, $ms); )* };
    (@row $mac:ident, $ctx:expr, $n:ty, [$($m:ty),*]) => { $( $mac!($ctx, $n, $m); )* };
}

pub fn run(ctx: &mut Ctx) {
    grid!(pair, ctx, [U0, U1, U2, U3, U4, U5, U6], [U0, U1, U2, U3, U4, U5, U6]);
    grid!(upair, ctx, [U1, U2, U3, U4, U5, U6], [U0, U1, U2, U3, U4, U5, U6]);
    pair!(ctx, U1, U1024);
    pair!(ctx, U1024, U1);
    pair!(ctx, U16, U64);
    pair!(ctx, U3, U100);
    pair!(ctx, U7, U9);
    // products beyond 1024 elements (a size threshold is where an "optimised" large-array path would switch in)
    pair!(ctx, U2, U1024);
    pair!(ctx, U1024, U2);
    pair!(ctx, U32, U33);
    pair!(ctx, U33, U32);
    pair!(ctx, U3, U1000);
    pair!(ctx, U1000, U3);
    pair!(ctx, U64, U64);
    pair!(ctx, U1, U4096);
    pair!(ctx, U4096, U1);
    upair!(ctx, U2, U1024);
    upair!(ctx, U1024, U2);
    upair!(ctx, U32, U33);
    upair!(ctx, U33, U32);
    upair!(ctx, U3, U1000);
    upair!(ctx, U1000, U3);
    upair!(ctx, U64, U64);
    upair!(ctx, U1, U4096);
    upair!(ctx, U4096, U1);
    upair!(ctx, U1, U1024);
    upair!(ctx, U1024, U1);
    upair!(ctx, U16, U64);
    upair!(ctx, U3, U100);
    upair!(ctx, U7, U9);
}
