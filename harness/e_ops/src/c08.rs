//! C08 — generate/map/zip/fold/clone/default call the function once per index, in ascending
//! order, identically for every receiver / argument form and for drop and no-drop element types.

use super::*;
use std::cell::RefCell;

thread_local! {
    static LOG: RefCell<Vec<(u32, u32)>> = const { RefCell::new(Vec::new()) };
}
fn log(a: u32, b: u32) {
    LOG.with(|l| l.borrow_mut().push((a, b)));
}
fn take_log() -> Vec<(u32, u32)> {
    LOG.with(|l| core::mem::take(&mut *l.borrow_mut()))
}

fn check_log(what: &str, got: &[(u32, u32)], want: &[(u32, u32)]) -> Result<(), String> {
    if got != want {
        return Err(format!("{what}: the function was called with {got:?}, expected exactly {want:?} (once per index, ascending)"));
    }
    Ok(())
}

// ---------------------------------------------------------------- generate / default

/// form: 0 GenericArray, 1 &GenericArray, 2 &mut GenericArray, 3 Box<GenericArray>
fn generate<N: ArrayLength, U: Elem>(form: u8) -> Result<CaseInfo, String> {
    let n = N::USIZE;
    take_log();
    let f = |i: usize| {
        let o = U::make();
        log(i as u32, o.ident());
        o
    };
    let out: Vec<u32> = match form {
        0 => ids_of(&GA::<U, N>::generate(f)),
        1 => ids_of(&<&GA<U, N> as GenericSequence<U>>::generate(f)),
        2 => ids_of(&<&mut GA<U, N> as GenericSequence<U>>::generate(f)),
        _ => ids_of(&<Box<GA<U, N>> as GenericSequence<U>>::generate(f)[..]),
    };
    let lg = take_log();
    let idx: Vec<u32> = lg.iter().map(|x| x.0).collect();
    if idx != (0..n as u32).collect::<Vec<_>>() {
        return Err(format!("generate called its function with indices {idx:?}, expected 0..{n} ascending, once each"));
    }
    let made: Vec<u32> = lg.iter().map(|x| x.1).collect();
    if out != made {
        return Err(format!("result holds {out:?}, but call i returned {made:?}"));
    }
    ledger::check_exact(&[], 0)?;
    Ok(CaseInfo::new(n > 0, "generate"))
}

fn default_like<N: ArrayLength, U: Elem + Default>(boxed: bool) -> Result<CaseInfo, String> {
    let n = N::USIZE;
    let out: Vec<u32> = if boxed { ids_of(&GA::<U, N>::default_boxed()[..]) } else { ids_of(&GA::<U, N>::default()) };
    if ledger::calls() != n as u64 {
        return Err(format!("T::default() was called {} times for N = {n}", ledger::calls()));
    }
    if U::TRACKED {
        // ids are handed out in creation order: element i must be the i-th default made
        if out != (0..n as u32).collect::<Vec<_>>() {
            return Err(format!("element i is not the i-th default() result: {out:?}"));
        }
    }
    ledger::check_exact(&[], 0)?;
    Ok(CaseInfo::new(n > 0, "default"))
}

// ---------------------------------------------------------------- map / fold / clone

macro_rules! mapf {
    ($X:ty, $U:ty) => {
        |x: $X| {
            let o = <$U as Elem>::make();
            log(x.ident(), o.ident());
            o
        }
    };
}

fn map<N: ArrayLength, A: Elem, U: Elem>(form: u8) -> Result<CaseInfo, String> {
    let n = N::USIZE;
    let mut src = mk::<A, N>();
    let ids = ids_of(&src);
    take_log();
    let out: Vec<u32> = match form {
        0 => ids_of(&src.map(mapf!(A, U))),
        1 => {
            let r = ids_of(&(&src).map(mapf!(&A, U)));
            drop(src);
            r
        }
        2 => {
            let r = ids_of(&(&mut src).map(mapf!(&mut A, U)));
            drop(src);
            r
        }
        _ => ids_of(&Box::new(src).map(mapf!(A, U))[..]),
    };
    let lg = take_log();
    let args: Vec<u32> = lg.iter().map(|x| x.0).collect();
    if args != ids {
        return Err(format!("map called its function with {args:?}, the array holds {ids:?} (expected once each, ascending)"));
    }
    let made: Vec<u32> = lg.iter().map(|x| x.1).collect();
    if out != made || out.len() != n {
        return Err(format!("result holds {out:?}, but call i returned {made:?}"));
    }
    ledger::check_exact(&[], 0)?;
    Ok(CaseInfo::new(n > 0, "map"))
}

fn fold<N: ArrayLength, A: Elem>(form: u8) -> Result<CaseInfo, String> {
    let n = N::USIZE;
    let mut src = mk::<A, N>();
    let ids = ids_of(&src);
    // left fold with a non-commutative, non-associative step and the accumulator threaded through
    fn step(acc: (u64, Vec<u32>), id: u32) -> (u64, Vec<u32>) {
        let (h, mut v) = acc;
        v.push(id);
        (h.wrapping_mul(1_000_003).wrapping_add(id as u64 + 1), v)
    }
    let init = (7u64, Vec::new());
    let got = match form {
        0 => src.fold(init, |acc, a: A| step(acc, a.ident())),
        1 => {
            let r = (&src).fold(init, |acc, a: &A| step(acc, a.ident()));
            drop(src);
            r
        }
        2 => {
            let r = (&mut src).fold(init, |acc, a: &mut A| step(acc, a.ident()));
            drop(src);
            r
        }
        _ => Box::new(src).fold(init, |acc, a: A| step(acc, a.ident())),
    };
    let want = ids.iter().fold((7u64, Vec::new()), |acc, &i| step(acc, i));
    if got != want {
        return Err(format!("fold visited {:?} (hash {}), the left fold over the array visits {:?} (hash {})", got.1, got.0, want.1, want.0));
    }
    ledger::check_exact(&[], 0)?;
    Ok(CaseInfo::new(n > 0, "fold"))
}

fn clone<N: ArrayLength, A: Elem>(boxed: bool) -> Result<CaseInfo, String> {
    let n = N::USIZE;
    let src = mk::<A, N>();
    let ids = ids_of(&src);
    let before = ledger::clone_calls();
    let (cl_ids, ok) = if boxed {
        let b = Box::new(src);
        let c = b.clone();
        let ok = c.iter().zip(b.iter()).all(|(x, y)| x.is_clone_of(y));
        if ids_of(&b[..]) != ids {
            return Err("clone disturbed its source".into());
        }
        (ids_of(&c[..]), ok)
    } else {
        let c = src.clone();
        let ok = c.iter().zip(src.iter()).all(|(x, y)| x.is_clone_of(y));
        if ids_of(&src) != ids {
            return Err("clone disturbed its source".into());
        }
        let r = (ids_of(&c), ok);
        drop(c);
        drop(src);
        r
    };
    if !ok || cl_ids.len() != n {
        return Err(format!("clone element i is not a clone of source element i: clone {cl_ids:?}, source {ids:?}"));
    }
    if A::COUNTS_CLONES {
        if ledger::clone_calls() - before != n as u64 {
            return Err(format!("T::clone was called {} times for N = {n}", ledger::clone_calls() - before));
        }
    }
    if A::TRACKED {
        // clones get increasing ids in call order: ascending order of indices
        let mut sorted = cl_ids.clone();
        sorted.sort();
        if sorted != cl_ids {
            return Err(format!("T::clone was not called in ascending index order: clone ids {cl_ids:?}"));
        }
    }
    ledger::check_exact(&[], 0)?;
    Ok(CaseInfo::new(n > 0, "clone"))
}

/// `Clone::clone_from`: the destination becomes the element-wise clone of the source (same oracle as `clone`; the old
/// contents of the destination are released exactly once; the source is undisturbed)
fn clone_from<N: ArrayLength, A: Elem>(boxed: bool) -> Result<CaseInfo, String> {
    let n = N::USIZE;
    let src = mk::<A, N>();
    let ids = ids_of(&src);
    let before = ledger::clone_calls();
    let (cl_ids, ok) = if boxed {
        let b = Box::new(src);
        let mut d = Box::new(mk::<A, N>());
        d.clone_from(&b);
        let ok = d.iter().zip(b.iter()).all(|(x, y)| x.is_clone_of(y));
        if ids_of(&b[..]) != ids {
            return Err("clone_from disturbed its source".into());
        }
        let mut live = ids.clone();
        live.extend(ids_of(&d[..]));
        let (l, z) = A::live_of(&live);
        ledger::check_exact(&l, z).map_err(|e| format!("after clone_from with source and destination alive: {e}"))?;
        (ids_of(&d[..]), ok)
    } else {
        let mut d = mk::<A, N>();
        d.clone_from(&src);
        let ok = d.iter().zip(src.iter()).all(|(x, y)| x.is_clone_of(y));
        if ids_of(&src) != ids {
            return Err("clone_from disturbed its source".into());
        }
        let mut live = ids.clone();
        live.extend(ids_of(&d));
        let (l, z) = A::live_of(&live);
        ledger::check_exact(&l, z).map_err(|e| format!("after clone_from with source and destination alive: {e}"))?;
        let r = (ids_of(&d), ok);
        drop(d);
        drop(src);
        r
    };
    if !ok || cl_ids.len() != n {
        return Err(format!("after clone_from, destination element i is not a clone of source element i: destination {cl_ids:?}, source {ids:?}"));
    }
    if A::COUNTS_CLONES && ledger::clone_calls() - before != n as u64 {
        return Err(format!("clone_from called T::clone {} times for N = {n}", ledger::clone_calls() - before));
    }
    if A::TRACKED {
        let mut sorted = cl_ids.clone();
        sorted.sort();
        if sorted != cl_ids {
            return Err(format!("clone_from did not clone in ascending index order: destination ids {cl_ids:?}"));
        }
    }
    ledger::check_exact(&[], 0)?;
    Ok(CaseInfo::new(n > 0, "clone_from"))
}

// ---------------------------------------------------------------- zip

macro_rules! zipf {
    ($X:ty, $Y:ty, $U:ty) => {
        |x: $X, y: $Y| {
            let o = <$U as Elem>::make();
            log(x.ident(), y.ident());
            log(u32::MAX, o.ident());
            o
        }
    };
}

macro_rules! form {
    (owned, $v:ident) => { $v };
    (shared, $v:ident) => { &$v };
    (mutable, $v:ident) => { &mut $v };
}
macro_rules! arg_ty {
    (owned, $t:ty) => { $t };
    (shared, $t:ty) => { &$t };
    (mutable, $t:ty) => { &mut $t };
}
macro_rules! zip_fn {
    ($name:ident, $l:tt, $r:tt) => {
        #[allow(unused_mut)]
        fn $name<N: ArrayLength, A: Elem, B: Elem, U: Elem>() -> Result<CaseInfo, String> {
            let n = N::USIZE;
            let mut a = mk::<A, N>();
            let mut b = mk::<B, N>();
            let ida = ids_of(&a);
            let idb = ids_of(&b);
            take_log();
            let out = ids_of(&form!($l, a).zip(form!($r, b), zipf!(arg_ty!($l, A), arg_ty!($r, B), U)));
            zip_judge(n, &ida, &idb, &out)
        }
    };
}
fn zip_judge(n: usize, ida: &[u32], idb: &[u32], out: &[u32]) -> Result<CaseInfo, String> {
    let lg = take_log();
    let pairs: Vec<(u32, u32)> = lg.iter().filter(|x| x.0 != u32::MAX).cloned().collect();
    let want: Vec<(u32, u32)> = ida.iter().cloned().zip(idb.iter().cloned()).collect();
    check_log("zip", &pairs, &want)?;
    let made: Vec<u32> = lg.iter().filter(|x| x.0 == u32::MAX).map(|x| x.1).collect();
    if out != made || out.len() != n {
        return Err(format!("zip result holds {out:?}, but call i returned {made:?}"));
    }
    Ok(CaseInfo::new(n > 0, "zip"))
}
zip_fn!(zip_oo, owned, owned);
zip_fn!(zip_os, owned, shared);
zip_fn!(zip_om, owned, mutable);
zip_fn!(zip_so, shared, owned);
zip_fn!(zip_ss, shared, shared);
zip_fn!(zip_sm, shared, mutable);
zip_fn!(zip_mo, mutable, owned);
zip_fn!(zip_ms, mutable, shared);
zip_fn!(zip_mm, mutable, mutable);
fn zip_bb<N: ArrayLength, A: Elem, B: Elem, U: Elem>() -> Result<CaseInfo, String> {
    let n = N::USIZE;
    let a = Box::new(mk::<A, N>());
    let b = Box::new(mk::<B, N>());
    let ida = ids_of(&a[..]);
    let idb = ids_of(&b[..]);
    take_log();
    let out = ids_of(&a.zip(b, zipf!(A, B, U))[..]);
    zip_judge(n, &ida, &idb, &out)
}

/// after a zip with owned operands nothing may be left alive or dropped twice
fn zip_wrapped(f: impl Fn() -> Result<CaseInfo, String>) -> Result<CaseInfo, String> {
    let r = f()?;
    ledger::check_exact(&[], 0)?;
    Ok(r)
}

macro_rules! for_ns {
    ([$($n:ty),*], $N:ident => $body:block) => { $( { type $N = $n; if <$N as generic_array::typenum::Unsigned>::USIZE <= vcommon::maxn() { $body } } )* };
}

pub fn run(ctx: &mut Ctx) {
    for_ns!([U0, U1, U2, U3, U4, U5, U6, U7, U8, U16, U17, U33, U64, U100, U128, U1000], N => {
        let n = N::USIZE;
        macro_rules! c {
            ($name:expr, $types:expr, $f:expr) => {
                ctx.case(&format!("C08;{};N={n};{}", $name, $types), || $f)
            };
        }
        for form in 0u8..4 {
            let fname = ["owned", "ref", "mut", "box"][form as usize];
            c!(format!("generate-{fname}"), "U=Tr4", generate::<N, Tr<0>>(form));
            c!(format!("generate-{fname}"), "U=u32", generate::<N, u32>(form));
            c!(format!("generate-{fname}"), "U=TrZ", generate::<N, TrZ>(form));
            c!(format!("map-{fname}"), "A=Tr4,U=Tr4", map::<N, Tr<0>, Tr<0>>(form));
            c!(format!("map-{fname}"), "A=Tr4,U=u32", map::<N, Tr<0>, u32>(form));
            c!(format!("map-{fname}"), "A=u32,U=Tr4", map::<N, u32, Tr<0>>(form));
            c!(format!("map-{fname}"), "A=u32,U=u32", map::<N, u32, u32>(form));
            c!(format!("map-{fname}"), "A=Tr24,U=Tr8", map::<N, Tr<5>, Tr<1>>(form));
            c!(format!("map-{fname}"), "A=Nd,U=Nd", map::<N, Nd, Nd>(form));
            c!(format!("fold-{fname}"), "A=Nd", fold::<N, Nd>(form));
            c!(format!("generate-{fname}"), "U=Nd", generate::<N, Nd>(form));
            c!(format!("generate-{fname}"), "U=Zn", generate::<N, Zn>(form));
            c!(format!("generate-{fname}"), "U=unit", generate::<N, ()>(form));
            c!(format!("map-{fname}"), "A=Zn,U=Zn", map::<N, Zn, Zn>(form));
            c!(format!("map-{fname}"), "A=Tr4,U=Zn", map::<N, Tr<0>, Zn>(form));
            c!(format!("fold-{fname}"), "A=Zn", fold::<N, Zn>(form));
            c!(format!("fold-{fname}"), "A=Tr4", fold::<N, Tr<0>>(form));
            c!(format!("fold-{fname}"), "A=u32", fold::<N, u32>(form));
            c!(format!("fold-{fname}"), "A=Tr24", fold::<N, Tr<5>>(form));
            // unusual representations: over-aligned (32 / 64), 3-byte
            c!(format!("generate-{fname}"), "U=Nb", generate::<N, Nb>(form));
            c!(format!("map-{fname}"), "A=Nb,U=Nb", map::<N, Nb, Nb>(form));
            c!(format!("map-{fname}"), "A=u32,U=Nb", map::<N, u32, Nb>(form));
            c!(format!("fold-{fname}"), "A=Nb", fold::<N, Nb>(form));
            c!(format!("generate-{fname}"), "U=TrA32", generate::<N, TrA>(form));
            c!(format!("generate-{fname}"), "U=a64", generate::<N, A64>(form));
            c!(format!("generate-{fname}"), "U=b3", generate::<N, B3>(form));
            c!(format!("map-{fname}"), "A=TrA32,U=b3", map::<N, TrA, B3>(form));
            c!(format!("map-{fname}"), "A=b3,U=TrA32", map::<N, B3, TrA>(form));
            c!(format!("map-{fname}"), "A=a64,U=Tr4", map::<N, A64, Tr<0>>(form));
            c!(format!("map-{fname}"), "A=u32,U=a64", map::<N, u32, A64>(form));
            c!(format!("fold-{fname}"), "A=TrA32", fold::<N, TrA>(form));
            c!(format!("fold-{fname}"), "A=b3", fold::<N, B3>(form));
        }
        c!("default", "U=Nb", default_like::<N, Nb>(false));
        c!("default_boxed", "U=Nb", default_like::<N, Nb>(true));
        c!("clone", "A=Nb", clone::<N, Nb>(false));
        c!("clone-box", "A=Nb", clone::<N, Nb>(true));
        c!("clone_from", "A=Nb", clone_from::<N, Nb>(false));
        c!("default", "U=TrA32", default_like::<N, TrA>(false));
        c!("default_boxed", "U=TrA32", default_like::<N, TrA>(true));
        c!("clone", "A=TrA32", clone::<N, TrA>(false));
        c!("clone-box", "A=TrA32", clone::<N, TrA>(true));
        c!("clone", "A=b3", clone::<N, B3>(false));
        c!("clone-box", "A=a64", clone::<N, A64>(true));
        c!("default", "U=Tr4", default_like::<N, Tr<0>>(false));
        c!("default", "U=TrZ", default_like::<N, TrZ>(false));
        c!("default_boxed", "U=Tr4", default_like::<N, Tr<0>>(true));
        c!("default_boxed", "U=TrZ", default_like::<N, TrZ>(true));
        c!("clone", "A=Tr4", clone::<N, Tr<0>>(false));
        c!("clone", "A=u32", clone::<N, u32>(false));
        c!("clone", "A=TrZ", clone::<N, TrZ>(false));
        c!("clone", "A=Nd", clone::<N, Nd>(false));
        c!("clone", "A=Zn", clone::<N, Zn>(false));
        c!("clone-box", "A=Zn", clone::<N, Zn>(true));
        c!("default", "U=Zn", default_like::<N, Zn>(false));
        c!("default_boxed", "U=Zn", default_like::<N, Zn>(true));
        c!("clone-box", "A=Nd", clone::<N, Nd>(true));
        c!("default", "U=Nd", default_like::<N, Nd>(false));
        c!("default_boxed", "U=Nd", default_like::<N, Nd>(true));
        c!("clone-box", "A=Tr4", clone::<N, Tr<0>>(true));
        c!("clone-box", "A=u32", clone::<N, u32>(true));
        c!("clone_from", "A=Tr4", clone_from::<N, Tr<0>>(false));
        c!("clone_from", "A=TrZ", clone_from::<N, TrZ>(false));
        c!("clone_from", "A=Nd", clone_from::<N, Nd>(false));
        c!("clone_from", "A=u32", clone_from::<N, u32>(false));
        c!("clone_from", "A=TrA32", clone_from::<N, TrA>(false));
        c!("clone_from-box", "A=Tr4", clone_from::<N, Tr<0>>(true));
        c!("clone_from-box", "A=Zn", clone_from::<N, Zn>(true));
        macro_rules! zips {
            ($fname:ident, $label:literal) => {
                c!($label, "A=Tr4,B=Tr4,U=Tr4", zip_wrapped(|| $fname::<N, Tr<0>, Tr<0>, Tr<0>>()));
                c!($label, "A=Tr4,B=u32,U=u32", zip_wrapped(|| $fname::<N, Tr<0>, u32, u32>()));
                c!($label, "A=u32,B=Tr4,U=Tr4", zip_wrapped(|| $fname::<N, u32, Tr<0>, Tr<0>>()));
                c!($label, "A=u32,B=u32,U=u32", zip_wrapped(|| $fname::<N, u32, u32, u32>()));
                c!($label, "A=u32,B=u32,U=Tr4", zip_wrapped(|| $fname::<N, u32, u32, Tr<0>>()));
                c!($label, "A=Tr24,B=Tr8,U=u32", zip_wrapped(|| $fname::<N, Tr<5>, Tr<1>, u32>()));
                c!($label, "A=TrZ,B=Tr4,U=Tr4", zip_wrapped(|| $fname::<N, TrZ, Tr<0>, Tr<0>>()));
                c!($label, "A=Nd,B=Nd,U=Nd", zip_wrapped(|| $fname::<N, Nd, Nd, Nd>()));
                c!($label, "A=Zn,B=u32,U=Zn", zip_wrapped(|| $fname::<N, Zn, u32, Zn>()));
                c!($label, "A=Nd,B=Tr4,U=Nd", zip_wrapped(|| $fname::<N, Nd, Tr<0>, Nd>()));
                c!($label, "A=Nb,B=Nb,U=Nb", zip_wrapped(|| $fname::<N, Nb, Nb, Nb>()));
                c!($label, "A=TrA32,B=b3,U=a64", zip_wrapped(|| $fname::<N, TrA, B3, A64>()));
                c!($label, "A=b3,B=TrA32,U=TrA32", zip_wrapped(|| $fname::<N, B3, TrA, TrA>()));
            };
        }
        zips!(zip_oo, "zip-owned-owned");
        zips!(zip_os, "zip-owned-ref");
        zips!(zip_om, "zip-owned-mut");
        zips!(zip_so, "zip-ref-owned");
        zips!(zip_ss, "zip-ref-ref");
        zips!(zip_sm, "zip-ref-mut");
        zips!(zip_mo, "zip-mut-owned");
        zips!(zip_ms, "zip-mut-ref");
        zips!(zip_mm, "zip-mut-mut");
        zips!(zip_bb, "zip-box-box");
    });
}
