//! C07 — collecting yields an array only for exactly N items.
//!
//! The environment (the source iterator) is owned by the enumerator: item count, size-hint
//! policy, fusedness and a panic at any `next` call.

use super::*;
use std::cell::RefCell;

#[derive(Clone, Copy, Debug, PartialEq, Eq)]
pub enum Hint {
    Exact,
    Absent,
    LowerOnly,
    UpperOnly,
    Loose,
    LyingLow,
    LyingHigh,
    Changing,
    /// truthful, upper bound exactly usize::MAX (what `take_while` / `scan` over an unbounded source report)
    UpperMax,
    /// truthful, exact lower bound and upper bound usize::MAX
    LowerUpperMax,
}
pub const HINTS: &[Hint] = &[Hint::Exact, Hint::Absent, Hint::LowerOnly, Hint::UpperOnly, Hint::Loose, Hint::LyingLow, Hint::LyingHigh, Hint::Changing, Hint::UpperMax, Hint::LowerUpperMax];

impl Hint {
    fn truthful(self) -> bool {
        !matches!(self, Hint::LyingLow | Hint::LyingHigh)
    }
}

/// `MARK`: the source also carries the `FusedIterator` marker (std's `Fuse` adaptor is then a pass-through)
pub struct Src<E: Elem, const MARK: bool> {
    total: usize,
    yielded: usize,
    hint: Hint,
    fused: bool,
    pub next_calls: usize,
    pub hint_calls: RefCell<usize>,
    pub returned_none: bool,
    pub polls_after_none: usize,
    pub produced: Vec<u32>,
    _p: core::marker::PhantomData<E>,
}

impl<E: Elem, const MARK: bool> Src<E, MARK> {
    fn new(total: usize, hint: Hint, fused: bool) -> Self {
        Src { total, yielded: 0, hint, fused, next_calls: 0, hint_calls: RefCell::new(0), returned_none: false, polls_after_none: 0, produced: vec![], _p: core::marker::PhantomData }
    }
}

impl<E: Elem> core::iter::FusedIterator for Src<E, true> {}

impl<E: Elem, const MARK: bool> Iterator for Src<E, MARK> {
    type Item = E;
    fn next(&mut self) -> Option<E> {
        self.next_calls += 1;
        ledger::tick("next");
        if self.returned_none {
            self.polls_after_none += 1;
            if self.fused {
                return None;
            }
            // a non-fused source comes back to life after its first None
            let e = E::make();
            self.produced.push(e.ident());
            return Some(e);
        }
        if self.yielded < self.total {
            self.yielded += 1;
            let e = E::make();
            self.produced.push(e.ident());
            Some(e)
        } else {
            self.returned_none = true;
            None
        }
    }
    fn size_hint(&self) -> (usize, Option<usize>) {
        let calls = {
            let mut c = self.hint_calls.borrow_mut();
            *c += 1;
            *c
        };
        let rem = self.total - self.yielded;
        match self.hint {
            Hint::Exact => (rem, Some(rem)),
            Hint::Absent => (0, None),
            Hint::LowerOnly => (rem, None),
            Hint::UpperOnly => (0, Some(rem)),
            Hint::Loose => (rem / 2, Some(rem * 2 + 1)),
            Hint::LyingLow => (0, Some(rem.saturating_sub(1))),
            Hint::LyingHigh => (rem + 1, None),
            Hint::UpperMax => (0, Some(usize::MAX)),
            Hint::LowerUpperMax => (rem, Some(usize::MAX)),
            Hint::Changing => {
                if calls % 2 == 1 {
                    (0, None)
                } else {
                    (rem, Some(rem))
                }
            }
        }
    }
}

/// entry: 0 try_from_iter, 1 from_iter, 2 try_boxed_from_iter, 3 boxed from_iter
fn collect_case<N: ArrayLength, E: Elem, const MARK: bool>(entry: u8, c: usize, hint: Hint, fused: bool, bomb: Option<u64>) -> Result<(CaseInfo, usize), String> {
    let n = N::USIZE;
    let mut src = Src::<E, MARK>::new(c, hint, fused);
    // what the source announces before anything is pulled: "a size_hint that already rules N out" must be a LengthError
    let (lo0, hi0) = {
        let h = src.size_hint();
        *src.hint_calls.borrow_mut() = 0;
        h
    };
    let rules_out = lo0 > n || hi0.map_or(false, |u| u < n);
    ledger::set_call_bomb(bomb);
    // Ok(Some(ids)) = array returned, Ok(None) = LengthError
    let r = catch(AssertUnwindSafe(|| -> Option<Vec<u32>> {
        match entry {
            0 => GA::<E, N>::try_from_iter(&mut src).ok().map(|a| ids_of(&a)),
            1 => Some(ids_of(&(&mut src).collect::<GA<E, N>>())),
            2 => GA::<E, N>::try_boxed_from_iter(&mut src).ok().map(|a| ids_of(&a[..])),
            _ => Some(ids_of(&(&mut src).collect::<Box<GA<E, N>>>()[..])),
        }
    }));
    ledger::set_call_bomb(None);
    let calls = src.next_calls;
    let outcome: &str;
    match (bomb, r) {
        (Some(_), Err(PanicKind::Injected(_))) => {
            outcome = "source-panic-propagated";
        }
        (Some(_), Ok(_)) if ledger::fired() > 0 => return Err("the source's panic was swallowed".into()),
        (Some(_), Err(PanicKind::Other(m))) if ledger::fired() > 0 => return Err(format!("the source's panic was replaced by: {m}")),
        (_, r) => {
            // no fault fired (bomb index beyond the calls made, or none planned)
            if bomb.is_some() && ledger::fired() == 0 {
                return Err("harness: planned source panic never fired".into());
            }
            let verdict: Option<Vec<u32>> = match r {
                Ok(v) => v,
                Err(PanicKind::Other(m)) => {
                    let want = format!("expected {n} items");
                    if (entry == 1 || entry == 3) && m.contains(&want) {
                        None
                    } else {
                        return Err(format!("unexpected panic: {m}"));
                    }
                }
                Err(PanicKind::Injected(t)) => return Err(format!("harness: unplanned injected panic {t}")),
            };
            match &verdict {
                Some(ids) => {
                    if rules_out {
                        return Err(format!("Ok although the source's size hint ({lo0}, {hi0:?}) already ruled N = {n} out (it then produced {c} items; hint {hint:?})"));
                    }
                    // Ok only if exactly N items were produced before the source ended, in order
                    if c != n {
                        return Err(format!("Ok from a source that produced {c} items before ending (N = {n}, hint {hint:?}, fused {fused})"));
                    }
                    if ids[..] != src.produced[..n.min(src.produced.len())] || ids.len() != n {
                        return Err(format!("array holds {ids:?}, the source produced {:?}", src.produced));
                    }
                    outcome = "ok";
                }
                None => {
                    if c == n && hint.truthful() && !rules_out {
                        return Err(format!("rejected a source of exactly N = {n} items with a truthful size hint ({hint:?}, fused {fused})"));
                    }
                    outcome = if c == n { "rejected-on-lying-hint" } else if entry == 1 || entry == 3 { "length-panic" } else { "length-error" };
                }
            }
        }
    }
    if src.next_calls > n + 1 {
        return Err(format!("pulled {} times from the source, more than N + 1 = {}", src.next_calls, n + 1));
    }
    if src.polls_after_none > 0 {
        return Err(format!("polled the source {} more time(s) after it returned None", src.polls_after_none));
    }
    // everything pulled was dropped exactly once (the result was dropped inside the closure)
    ledger::check_exact(&[], 0).map_err(|e| format!("pulled items: {e}"))?;
    drop(src);
    Ok((CaseInfo::new(c > 0 || n > 0, outcome), calls))
}

macro_rules! for_ns {
    ($ctx:expr, [$($n:ty),*], [$($tn:ty),*], $N:ident => $body:block) => {
        $( { type $N = $n; if <$N as generic_array::typenum::Unsigned>::USIZE <= vcommon::maxn() { $body } } )*
        { $( { type $N = $tn; if <$N as generic_array::typenum::Unsigned>::USIZE <= vcommon::maxn() { $body } } )* }
    };
}

pub fn run(ctx: &mut Ctx) {
    for_ns!(ctx, [U0, U1, U2, U3, U4, U5, U8, U16, U33], [U6, U7, U17, U100, U1000], N => {
        macro_rules! per_elem {
            ($E:ty) => {
                for entry in 0u8..4 {
                    let en = ["try_from_iter", "from_iter", "try_boxed_from_iter", "boxed-from_iter"][entry as usize];
                    let cs: Vec<usize> = if N::USIZE <= 100 { (0..=N::USIZE + 3).collect() } else { vec![0, 1, N::USIZE / 2, N::USIZE - 1, N::USIZE, N::USIZE + 1, N::USIZE + 3] };
                    for c in cs {
                        for &hint in HINTS {
                            for (fused, mark) in [(true, false), (false, false), (true, true)] {
                                let d = format!("C07;{en};N={};c={c};hint={hint:?};fused={};E={}", N::USIZE, if mark { "marked" } else if fused { "true" } else { "false" }, <$E as Elem>::NAME);
                                macro_rules! cc {
                                    ($k:expr) => {
                                        if mark { collect_case::<N, $E, true>(entry, c, hint, fused, $k) } else { collect_case::<N, $E, false>(entry, c, hint, fused, $k) }
                                    };
                                }
                                // fault-free run also tells how many next() calls there are to fail
                                elems::reset_all();
                                let calls = if !ctx.prerun(&d, &format!("{d};k=-")) {
                                    0
                                } else {
                                    match catch(|| cc!(None)) {
                                        Ok(Ok((_, calls))) => calls,
                                        _ => 0,
                                    }
                                };
                                ctx.case(&format!("{d};k=-"), || cc!(None).map(|x| x.0));
                                // panics at every call index: all hints for small N, the three hint families otherwise
                                if N::USIZE <= 5 || matches!(hint, Hint::Exact | Hint::Absent | Hint::LyingHigh) {
                                    let ks: Vec<u64> = if calls <= 128 { (0..calls as u64).collect() } else { let c = calls as u64; let mut v = vec![0, 1, c / 2, c - 2, c - 1, 63, 64, 65, 127, 128, 129, 511, 512, 513]; v.retain(|&k| k < c); v.sort(); v.dedup(); v };
                                    for k in ks {
                                        ctx.case(&format!("{d};k={k}"), || cc!(Some(k)).map(|x| x.0));
                                    }
                                }
                            }
                        }
                    }
                }
            };
        }
        per_elem!(Tr<0>);
        per_elem!(TrZ);
        per_elem!(u32);
    });
}
