#!/bin/sh
# Build the exploration engines once (offline, from files on disk only).
set -e
cd "$(dirname "$0")/harness"
export CARGO_NET_OFFLINE=true CARGO_TARGET_DIR="$(cd .. && pwd)/target"
cargo build --offline --workspace -q 2>&1 | grep -v '^warning' | tail -20 || true
cargo build --offline --workspace -q
# the same engines without debug assertions / overflow checks (profile `nda`), used by the quick tier next to the dev build
cargo build --offline --profile nda -q -p e_views -p e_ops -p e_misc -p e_alloc -p e_hex -p e_hex_fh -p e_seq -p e_fault -p e_iter
# AddressSanitizer substrate (nightly): pre-build the engines that use it in the quick tier so the first check is fast
RUSTFLAGS="-Zsanitizer=address" CARGO_TARGET_DIR="$(cd .. && pwd)/target_asan" cargo +nightly build --offline -q -p e_iter -p e_seq -p e_own --target x86_64-unknown-linux-gnu
echo setup ok
