#!/bin/sh
# Build the exploration engines once (offline, from files on disk only).
set -e
cd "$(dirname "$0")/harness"
export CARGO_NET_OFFLINE=true CARGO_TARGET_DIR="$(cd .. && pwd)/target"
cargo build --offline --workspace -q 2>&1 | grep -v '^warning' | tail -20 || true
cargo build --offline --workspace -q
echo setup ok
